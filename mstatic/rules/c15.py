"""C15 - tenant isolation."""
import ast

from mstatic.core import AnalysisError, dotted, norm, own_nodes
from mstatic.rules import util as U
from mstatic.rules import c16

DB = 'mistral.db.v2.sqlalchemy.api'
MODELS = 'mistral.db.v2.sqlalchemy.models'
SECURE_BASE = 'mistral.db.sqlalchemy.model_base.MistralSecureModelBase'

# raw (unscoped) query constructions on *secure* models, with the reason each
# is acceptable; R2 proves the engine-internal ones are not reachable
# in-process from REST controllers or expression functions
RAW_OK = {
    'update_on_match': ('engine', 'compare-and-swap on a row the engine '
                        'already holds'),
    'get_task_executions_count': ('engine', 'join/with-items accounting'),
    '_get_completed_task_executions_query': ('engine', 'controller queries'),
    '_get_incomplete_task_executions_query': ('engine', 'completion check'),
    'get_running_expired_sync_action_executions': ('engine', 'heartbeat '
                                                   'checker'),
    '_get_completed_root_executions_query': ('engine', 'expiration policy'),
    'get_next_cron_triggers': ('engine', 'periodic cron processor'),
    'update_action_execution_heartbeat': ('engine', 'heartbeat update over '
                                          'RPC'),
    'update_cron_trigger': ('engine', 'CAS by the periodic processor after '
                            'a secured read of the same row'),
    'delete_cron_trigger': ('checked', 'raw delete by id after '
                            'check_db_obj_access on the row (R3)'),
    'delete_event_trigger': ('checked', 'raw delete by id; every caller '
                             'reads the row through the secure query first '
                             'and ownership is checked in R3'),
}

# functions allowed on a path from REST / expression functions although they
# use insecure=True or a raw query (result is not returned to the caller)
REACH_OK = {
    'mistral.services.triggers.create_event_trigger':
        'fan-out list of events for the event engine, not returned',
    'mistral.services.triggers.delete_event_trigger':
        'fan-out list of events for the event engine, not returned',
    DB + '.update_workflow_definition':
        'cross-tenant dependency check (triggers of other projects), '
        'not returned',
    DB + '.delete_workflow_definition':
        'cross-tenant dependency check (triggers of other projects), '
        'not returned',
    DB + '.delete_cron_trigger': 'raw delete after ownership check (R3)',
    DB + '.delete_event_trigger': 'raw delete after ownership check (R3)',
    DB + '.update_on_match': 'unreachable in-process; listed for CHA '
                             'over-approximation only',
}

# resource stems whose rows can be public or shared -> model class
MUTABLE_PUBLIC = {
    'workbook': 'Workbook',
    'workflow_definition': 'WorkflowDefinition',
    'action_definition': 'ActionDefinition',
    'code_source': 'CodeSource',
    'dynamic_action_definition': 'DynamicActionDefinition',
    'cron_trigger': 'CronTrigger',
    'environment': 'Environment',
    'event_trigger': 'EventTrigger',
}
# engine-only mutators (no REST path: proved in R2)
MUTATOR_ENGINE_ONLY = {
    'update_cron_trigger': 'only the periodic processor advances triggers',
}


def secure_models(prog):
    out = set()
    for q in prog.classes:
        if prog.class_module.get(q) == MODELS and SECURE_BASE in prog.mro(q):
            out.add(q.rsplit('.', 1)[1])
    if len(out) < 8:
        raise AnalysisError('C15: only %d secure models found' % len(out))
    return out


def run(ctx):
    _run(ctx)
    linkage_params_not_from_clients(ctx)
    r8 = ctx.rule('R8', 'the caller identity every scoped query uses is the '
                  'context built from this request and removed after it',
                  'GD')
    from mstatic.rules import authhook
    authhook.request_context(ctx, r8)
    authhook.auth_hook(ctx, r8)
    authhook.identity_headers(ctx, r8)
    authhook.scoping_identity_from_environment(ctx, r8)
    r9 = ctx.rule('R9', 'an event fires the triggers of its own project and '
                  'the triggers that are themselves public, nothing else',
                  'DT (element predicate)')
    event_fanout(ctx, r9)


def _run(ctx):
    prog = ctx.prog
    sec = secure_models(prog)
    dbfuncs = [f for f in prog.funcs_in_module(DB) if f.parent is None]

    # ---- R1 every query is scoped ------------------------------------------
    r1 = ctx.rule('R1', 'every query construction in the DB API is scoped, '
                  'admin-gated or in the frozen raw table', 'QSHAPE')
    r1.floor(25)
    from mstatic.rules import shared as _shf
    _shf.facade_forwards_parameters(ctx, r1)
    for f in dbfuncs:
        for n in own_nodes(f.node):
            if not isinstance(n, ast.Call):
                continue
            d = U.call_dotted(n)
            raw = None
            if d.endswith('model_query') and U.call_name(n) == 'model_query':
                raw = n.args[0] if n.args else U.kwarg(n, 'model')
            elif d == 'session.query' and n.args:
                raw = n.args[0]
            elif d in ('table.delete', 'table.update'):
                raw = 'table'
            if raw is None:
                continue
            cons = ctx.construct(f, n)
            if f.name == '_secure_query':
                r1.ok(cons, 'the scoping function itself')
                continue
            model = dotted(raw) if not isinstance(raw, str) else 'table'
            model = _resolve_local(f, model)
            mname = model.split('.')[-1] if model else None
            if mname and model.startswith('models.') and mname not in sec:
                r1.ok(cons, 'non-secure model %s' % mname)
                continue
            if _admin_gated(f, n):
                r1.ok(cons, 'chosen by insecure = ctx.is_admin or insecure')
                continue
            if f.name in RAW_OK:
                r1.ok(cons, 'raw table: ' + RAW_OK[f.name][1])
                continue
            r1.fail(cons, 'unscoped query on a secure (or unknown) model '
                    'outside _secure_query / admin gate / raw table',
                    ctx.loc(f, n))
    # shape of _secure_query
    sq = prog.func(DB + '._secure_query')
    r1.check(U.phas(sq.node, '___.or_(model.project_id == '
                    "security.get_project_id(), model.scope == 'public')")
             and U.phas(sq.node, 'issubclass(model, '
                        'mb.MistralSecureModelBase)'),
             ctx.construct(sq, extra='criterion'),
             '_secure_query criterion is no longer own-project OR public',
             ctx.loc(sq))
    filt = [n for n in own_nodes(sq.node) if isinstance(n, ast.Call) and
            U.call_name(n) == 'filter']
    cfg = ctx.cfg(sq)
    rets = [x for x in cfg.nodes if x.kind == 'stmt' and
            isinstance(x.ast, ast.Return)]
    ok = bool(filt)
    for x in rets:
        # a return that is not dominated by the filter must be the
        # non-secure-model early return
        dom_f = any(U.node_has_call(cfg, d, 'filter')
                    for d in cfg.dominators(x))
        if not dom_f:
            ok = ok and U.guarded(
                cfg, x, 'issubclass(model, mb.MistralSecureModelBase)',
                False)
    r1.check(ok, ctx.construct(sq, extra='filter on every secure path'),
             'a return of _secure_query for a secure model is not dominated '
             'by query.filter(criterion)', ctx.loc(sq))
    ar = prog.func(DB + '._get_accepted_resources')
    flt = [n for n in own_nodes(ar.node) if isinstance(n, ast.Call) and
           U.call_name(n) == 'filter']
    r1.check(any(U.phas(c, "___.status == 'accepted'") and
                 U.phas(c, '___.member_id == security.get_project_id()')
                 for c in flt),
             ctx.construct(ar, extra='accepted shares of the caller'),
             '_get_accepted_resources no longer filters accepted shares of '
             'the caller', ctx.loc(ar))
    # what is shared: exactly the accepted shares of this type for this
    # caller, all as equalities
    conj = []
    for c in flt:
        for a in ast.walk(c):
            if isinstance(a, ast.Call) and U.call_name(a) == 'and_':
                conj = list(a.args)
    r1.check(len(conj) == 3 and all(
        isinstance(x, ast.Compare) and isinstance(x.ops[0], ast.Eq)
        for x in conj) and any(
        U.phas(x, '___.ResourceMember.resource_type == res_type')
        for x in conj),
        ctx.construct(ar, extra='type, status, member as equalities'),
        'accepted shares are not selected by equality on type, status and '
        'member', ctx.loc(ar))
    # dataflow of the criterion that reaches filter()
    qc = [n for n in own_nodes(sq.node) if isinstance(n, ast.Assign) and
          dotted(n.targets[0]) == 'query_criterion']
    base_ = [n for n in qc if U.phas(
        n.value, "___.or_(model.project_id == security.get_project_id(), "
        "model.scope == 'public')") and len(n.value.args) == 2]
    wide = [n for n in qc if n not in base_]
    okw = len(base_) == 1 and len(wide) == 1 and U.phas(
        wide[0].value, '___.or_(query_criterion, '
        'model.id.in_(shared_res_ids))') and len(wide[0].value.args) == 2 \
        and U.guarded(cfg, cfg.stmt_node(wide[0]), 'shared_res_ids', True)
    r1.check(okw and all(norm(c.args[0]) == 'query_criterion' and
                         len(c.args) == 1 for c in filt),
             ctx.construct(sq, extra='criterion dataflow'),
             'the criterion that reaches filter() is not "own OR public", '
             'widened only by the ids of accepted shares', ctx.loc(sq))
    sr = [n for n in own_nodes(sq.node) if isinstance(n, ast.Assign) and
          dotted(n.targets[0]) == 'shared_res_ids']
    src = [n for n in own_nodes(sq.node) if isinstance(n, ast.Assign) and
           dotted(n.targets[0]) == 'shared_res']
    oks = len(src) == 1 and U.phas(
        src[0].value, '_get_accepted_resources(res_type)') and \
        U.guarded(cfg, cfg.stmt_node(src[0]), 'res_type', True) and all(
            norm(n.value) == '[]' or U.phas(
                n.value, '[__r.resource_id for __r in shared_res]')
            for n in sr) and len(sr) == 2
    r1.check(oks, ctx.construct(sq, extra='shared ids'),
             'the ids added to the criterion are not the resource ids of '
             'the accepted shares of this resource type', ctx.loc(sq))
    # admin gate idiom: insecure may only be widened by is_admin
    for f in dbfuncs:
        for n in own_nodes(f.node):
            if isinstance(n, ast.Assign) and any(
                    dotted(t) == 'insecure' for t in n.targets):
                v = norm(n.value)
                r1.check(v in ('context.ctx().is_admin or insecure',
                               'insecure or context.ctx().is_admin',
                               'False'),
                         ctx.construct(f, n),
                         'insecure is widened by something other than '
                         'is_admin', ctx.loc(f, n))

    # ---- R2 nothing unscoped reachable from user surfaces ------------------
    r2 = ctx.rule('R2', 'no raw query and no insecure=True call is reachable '
                  'in-process from REST controllers or expression '
                  'functions', 'WMW-reach')
    cg = ctx.cg
    roots = {f.qname for f in c16.exposed_methods(prog)}
    roots |= {f.qname for f in prog.funcs_in_module(
        'mistral.expressions.std_functions') if f.parent is None}
    if len(roots) < 60:
        raise AnalysisError('C15.R2: only %d roots' % len(roots))
    parents = {}
    reach = cg.reach_forward(roots, kinds=('call', 'ref', 'cha', 'nested'),
                             parents=parents)
    n_targets = 0
    for name, (kind, why) in sorted(RAW_OK.items()):
        q = DB + '.' + name
        prog.func(q)
        n_targets += 1
        if q in reach and q not in REACH_OK:
            r2.fail(q + ' :: raw query', 'engine-internal raw query is '
                    'reachable from %s' % ' -> '.join(
                        cg.path(parents, roots, q)[:6]), prog.loc(q))
        else:
            r2.ok(q + ' :: raw query', REACH_OK.get(q, 'unreachable from '
                                                     'user surfaces'))
    for q, f in sorted(prog.funcs.items()):
        for n in own_nodes(f.node):
            if isinstance(n, ast.Call):
                v = U.kwarg(n, 'insecure')
                if isinstance(v, ast.Constant) and v.value is True:
                    n_targets += 1
                    cons = ctx.construct(f, n)
                    root_f = f
                    while root_f.parent is not None:
                        root_f = root_f.parent
                    if q in reach and q not in REACH_OK and \
                            root_f.qname not in REACH_OK:
                        r2.fail(cons, 'insecure=True call reachable from '
                                '%s' % ' -> '.join(
                                    cg.path(parents, roots, q)[:6]),
                                ctx.loc(f, n))
                    else:
                        r2.ok(cons, REACH_OK.get(root_f.qname,
                                                 'unreachable from user '
                                                 'surfaces'))
    if n_targets < 15:
        raise AnalysisError('C15.R2: only %d raw/insecure targets'
                            % n_targets)
    # bulk deletes (secure query includes other projects' public rows)
    for f in dbfuncs:
        if f.name.startswith('delete_') and f.name.endswith('s') and \
                any(isinstance(n, ast.Call) and U.call_name(n) == '_delete_all'
                    for n in own_nodes(f.node)):
            q = f.qname
            allowed = f.name in ('delete_resource_members',)
            r2.check(q not in reach or allowed, q + ' :: bulk delete',
                     'bulk delete reachable from %s' % ' -> '.join(
                         cg.path(parents, roots, q)[:6]), ctx.loc(f))
    # executions can never be public: nobody writes their scope
    for q, f in prog.funcs.items():
        if not f.module.startswith('mistral.engine.'):
            continue
        for n in own_nodes(f.node):
            if isinstance(n, ast.Dict):
                for k in n.keys:
                    if isinstance(k, ast.Constant) and k.value == 'scope':
                        r2.fail(ctx.construct(f, n), 'engine writes a scope '
                                'into an execution row', ctx.loc(f, n))
        for t, st in U.attr_stores(f.node):
            if t.attr == 'scope':
                r2.fail(ctx.construct(f, st), 'engine writes a scope into '
                        'an execution row', ctx.loc(f, st))
    r2.ok('mistral.engine :: execution scope', 'no engine code writes '
          'scope: execution rows are never public')

    # ---- R3 ownership on mutation -------------------------------------------
    r3 = ctx.rule('R3', 'update/delete of public or shareable rows is '
                  'dominated by an ownership check', 'GD')
    r3.floor(14)
    for stem in sorted(MUTABLE_PUBLIC):
        for verb in ('update', 'delete'):
            name = '%s_%s' % (verb, stem)
            f = prog.funcs.get(DB + '.' + name)
            if f is None:
                raise AnalysisError('C15.R3: DB function %s not found' % name)
            if name in MUTATOR_ENGINE_ONLY:
                r3.check(f.qname not in reach, f.qname + ' :: engine only',
                         'engine-only mutator became reachable from REST',
                         ctx.loc(f))
                continue
            check_mutation(ctx, r3, f)

    other_row_mutations(ctx, r3)

    # sharing a resource is an owner-only operation as well
    mp = prog.func('mistral.api.controllers.v2.member.MembersController.'
                   'post')
    inner = [x for q, x in prog.funcs.items()
             if q.startswith(mp.qname + '.<locals>.')]
    okm = False
    for g in inner + [mp]:
        gcfg = ctx.cfg(g)
        cr = U.calls_in(gcfg, 'create_resource_member')
        if not cr:
            continue
        names = ownership_wrappers(ctx)
        chk = [n for n, c in U.calls_in(gcfg, *names)]
        okm = any(gcfg.dominates(k, cr[0][0]) for k in chk)
    r3.check(okm, ctx.construct(mp, extra='share only by owner'),
             'a membership is created without checking that the caller '
             'owns the shared resource (an accepted member could re-share '
             'the owner\'s private workflow)', ctx.loc(mp))

    # ---- R4 forced ownership hook -------------------------------------------
    r4 = ctx.rule('R4', 'project_id listener is attached to every secure '
                  'model', 'AGREE')
    tree = prog.module(MODELS)
    reg_idx = None
    cls_idx = {}
    for i, n in enumerate(tree.body):
        if isinstance(n, ast.Expr) and isinstance(n.value, ast.Call) and \
                U.call_name(n.value) == 'register_secure_model_hooks':
            reg_idx = i if reg_idx is None else max(reg_idx, i)
        if isinstance(n, ast.ClassDef):
            cls_idx[n.name] = i
    if reg_idx is None:
        raise AnalysisError('C15.R4: register_secure_model_hooks() call not '
                            'found in models.py')
    for name in sorted(sec):
        r4.check(cls_idx.get(name, 10 ** 9) < reg_idx,
                 MODELS + '.' + name + ' :: hook registered',
                 'secure model %s is declared after '
                 'register_secure_model_hooks(): the listener that forces '
                 'project_id to the caller is never attached' % name,
                 'mistral/db/v2/sqlalchemy/models.py:%s'
                 % getattr(tree.body[cls_idx[name]], 'lineno', '?')
                 if name in cls_idx else '')
    sp = prog.func('mistral.db.sqlalchemy.model_base._set_project_id')
    rets = [n for n in own_nodes(sp.node) if isinstance(n, ast.Return)]
    r4.check(len(rets) == 1 and norm(rets[0].value) ==
             'security.get_project_id()', ctx.construct(sp),
             'listener no longer returns the caller project regardless of '
             'the assigned value', ctx.loc(sp))
    rh = prog.func(
        'mistral.db.sqlalchemy.model_base.register_secure_model_hooks')
    okh = False
    for lp in [n for n in own_nodes(rh.node) if isinstance(n, ast.For)]:
        if U.phas(lp.iter, '___.iter_subclasses(MistralSecureModelBase)'):
            var = dotted(lp.target)
            okh = U.phas(lp, "event.listen(%s.project_id, 'set', "
                         "_set_project_id, retval=True)" % var)
    r4.check(okh, ctx.construct(rh),
             'hook registration no longer listens to "set" with '
             'retval=True on every subclass', ctx.loc(rh))
    hcfg = ctx.cfg(rh)
    for n, c in U.calls_in(hcfg, 'listen'):
        # the only classes that may be skipped are the abstract ones
        ga = U.guard_atoms(hcfg, n)
        r4.check(all(t_ is False and U.phas(
            a_, "'__abstract__' in __c.__dict__") for a_, t_ in ga),
            ctx.construct(rh, extra='every concrete subclass'),
            'the listener is attached under a condition other than "the '
            'class is not abstract": %s' % [(norm(a_), t_) for a_, t_ in ga],
            ctx.loc(rh, c))

    # ---- R5 cross-project listing (shared with C16.R3) -----------------------
    r5 = ctx.rule('R5', 'all_projects listing passes an admin-only rule '
                  '(same rule as C16.R3)', 'GD')
    reg = c16.policy_registry(prog)
    n5 = 0
    for f in c16.exposed_methods(prog):
        if 'all_projects' not in f.params:
            continue
        cfg = ctx.cfg(f)
        enf = [(n, c, r) for (n, c, r) in c16.enforce_calls(ctx, f)
               if r in reg and reg[r]['check_str'] == 'rule:admin_only']
        IN, keys = ctx.sd.analyze(cfg, f, [('all_projects', (False, True))],
                                  block={n.id for (n, _c, _r) in enf})
        for n, c in cfg.calls():
            if any(k.arg == 'all_projects' and not (
                    isinstance(k.value, ast.Constant) and not k.value.value)
                    for k in c.keywords):
                n5 += 1
                r5.check(True not in ctx.sd.values_at(IN, keys, n,
                                                      'all_projects'),
                         ctx.construct(f, extra='all_projects'),
                         'all_projects=True reaches the listing without an '
                         'admin-only rule', ctx.loc(f, c))
    if n5 < 4:
        raise AnalysisError('C15.R5: only %d all_projects sinks' % n5)
    c16.insecure_origin(ctx, r5)

    # ---- R7 process-wide caches sit behind a tenant-scoped read ----------------
    r7 = ctx.rule('R7', 'per-process caches of tenant data are consulted '
                  'only after a raising tenant-scoped DB read', 'GD')
    raising = set()
    for f in dbfuncs:
        if not f.name.startswith('get_'):
            continue
        cfgf = ctx.cfg(f)
        for x in cfgf.nodes:
            if x.kind == 'stmt' and isinstance(x.ast, ast.Raise) and \
                    x.ast.exc is not None and \
                    'DBEntityNotFoundError' in norm(x.ast.exc):
                ga = U.guard_atoms(cfgf, x)
                if ga and ga[0][1] is False and \
                        isinstance(ga[0][0], ast.Name):
                    raising.add(f.name)
    if len(raising) < 10:
        raise AnalysisError('C15.R7: only %d raising getters' % len(raising))
    n_cache = 0
    for cq, cnode in sorted(prog.classes.items()):
        if not prog.class_module[cq].startswith('mistral.actions.'):
            continue
        init = prog.funcs.get(cq + '.__init__')
        if init is None:
            continue
        caches = set()
        for t, st in U.attr_stores(init.node):
            if dotted(t.value) == 'self' and (
                    (isinstance(st.value, ast.Call) and
                     U.call_name(st.value) == 'dict' and not st.value.args)
                    or (isinstance(st.value, ast.Dict) and
                        not st.value.keys)):
                caches.add(t.attr)
        for m in prog.methods_of(cq):
            if m.name == '__init__':
                continue
            uses = [n for n in own_nodes(m.node)
                    if isinstance(n, ast.Attribute) and
                    dotted(n.value) == 'self' and n.attr in caches and
                    isinstance(n.ctx, ast.Load)]
            if not uses:
                continue
            cfgm = ctx.cfg(m)
            for x in cfgm.nodes:
                if x.kind == 'stmt' and isinstance(x.ast, ast.Return) and \
                        x.ast.value is not None:
                    n_cache += 1
                    ok = any(U.node_has_call(cfgm, d, *sorted(raising))
                             for d in cfgm.dominators(x))
                    r7.check(ok, ctx.construct(m, x.ast),
                             'a value that may come from the per-process '
                             'cache %s is returned without a dominating '
                             'tenant-scoped read that raises when the row '
                             'is not visible to the caller (a warm cache '
                             'would hand another project\'s private data '
                             'out)' % sorted(caches), ctx.loc(m, x.ast))
    if n_cache < 1:
        raise AnalysisError('C15.R7: no cache-backed return found')
    tx_cache_lifetime(ctx, r7)

    # ---- R6 identity ---------------------------------------------------------
    r6 = ctx.rule('R6', 'caller identity comes from the request context',
                  'GD')
    gp = prog.func('mistral.services.security.get_project_id')
    gcfg = ctx.cfg(gp)
    okp = False
    for x in gcfg.nodes:
        if x.kind == 'stmt' and isinstance(x.ast, ast.Return) and \
                U.phas(x.ast.value, 'auth_ctx.ctx().project_id'):
            okp = U.guarded(gcfg, x, '___.pecan.auth_enable', True)
    r6.check(okp,
             ctx.construct(gp), 'get_project_id no longer returns the '
             'context project when authentication is enabled', ctx.loc(gp))
    c16.admin_identity(ctx, r6)
    um = prog.func(DB + '.update_resource_member')
    cfg = ctx.cfg(um)
    muts = [n for n, c in cfg.calls() if U.call_name(c) == 'update' and
            dotted(c.func.value) == 'res_member']
    if not muts:
        raise AnalysisError('C15.R6: update_resource_member mutation lost')
    ok = False
    ok = U.guarded(cfg, muts[0],
                   'member_id == security.get_project_id()', True)
    r6.check(ok, ctx.construct(um, extra='only the member'),
             'membership status can be changed by someone other than the '
             'member', ctx.loc(um))
    gc = prog.func(DB + '._get_criterion')
    for n in own_nodes(gc.node):
        if isinstance(n, ast.Return) and n.value is not None and not (
                isinstance(n.value, ast.Constant) and n.value.value is None):
            r6.check(U.phas(n.value, '___ == security.get_project_id()'),
                     ctx.construct(gc, n), 'membership criterion without '
                     'the caller project', ctx.loc(gc, n))
    gcfg2 = ctx.cfg(gc)
    CALLER = 'security.get_project_id()'
    n_ret = 0
    for x in gcfg2.nodes:
        if not (x.kind == 'stmt' and isinstance(x.ast, ast.Return)):
            continue
        v = x.ast.value
        if v is None or (isinstance(v, ast.Constant) and v.value is None):
            # "nothing visible": only for a non-owner asking about someone
            # else's membership
            r6.check(U.guarded(gcfg2, x, 'is_owner', False) and
                     U.guarded(gcfg2, x, 'member_id', True) and
                     U.guarded(gcfg2, x, 'member_id == ' + CALLER, False),
                     ctx.construct(gc, extra='empty criterion'),
                     'the empty criterion is returned for a case other than '
                     '"non-owner asks about another member"', ctx.loc(gc))
            continue
        n_ret += 1
        conj = list(v.args) if isinstance(v, ast.Call) and \
            U.call_name(v) == 'and_' else [v]
        alleq = all(isinstance(c, ast.Compare) and len(c.ops) == 1 and
                    isinstance(c.ops[0], ast.Eq) for c in conj)
        res = any(U.phas(c, '___.ResourceMember.resource_id == resource_id')
                  for c in conj)
        own = any(U.phas(c, '___.ResourceMember.project_id == ' + CALLER)
                  for c in conj)
        mem = any(U.phas(c, '___.ResourceMember.member_id == ' + CALLER)
                  for c in conj)
        r6.check(alleq and res and (own or mem), ctx.construct(gc, x.ast),
                 'membership criterion is not a conjunction of equalities '
                 'on this resource and on the caller as owner or member',
                 ctx.loc(gc, x.ast))
        if own:
            r6.check(U.guarded(gcfg2, x, 'is_owner', True),
                     ctx.construct(gc, extra='owner criterion for owners'),
                     'the owner-side criterion is used for a non-owner '
                     'query', ctx.loc(gc, x.ast))
        if any(U.phas(c, '___.ResourceMember.member_id == member_id')
               for c in conj):
            r6.check(U.guarded(gcfg2, x, 'member_id', True),
                     ctx.construct(gc, extra='member filter when given'),
                     'member_id filter used although no member id was '
                     'given', ctx.loc(gc, x.ast))
        elif own:
            r6.check(U.guarded(gcfg2, x, 'member_id', False),
                     ctx.construct(gc, extra='all members only when none '
                                   'given'),
                     'a given member id is ignored', ctx.loc(gc, x.ast))
    if n_ret < 3:
        raise AnalysisError('C15.R6: _get_criterion returns lost')


def _resolve_local(f, name):
    """`model = models.X` / `table = models.X.__table__` -> models.X"""
    if not name or '.' in name:
        return name
    for n in own_nodes(f.node):
        if isinstance(n, ast.Assign) and len(n.targets) == 1 and \
                dotted(n.targets[0]) == name:
            d = dotted(n.value)
            if d and d.startswith('models.'):
                return d[:-len('.__table__')] if d.endswith('.__table__') \
                    else d
    return name


def _admin_gated(f, call):
    """The raw query is one arm of a choice on `insecure`, and `insecure`
    is a parameter or a local that only ever receives False or the
    is_admin widening (the widening expression is checked in R1)."""
    if 'insecure' not in f.params:
        vals = [norm(n.value) for n in own_nodes(f.node)
                if isinstance(n, ast.Assign) and
                any(dotted(t) == 'insecure' for t in n.targets)]
        if not vals or any(v not in ('False',
                                     'context.ctx().is_admin or insecure')
                           for v in vals):
            return False
    def arms(n):
        """(arm taken when insecure is true, the other arm) of a choice
        whose test is `insecure` or `not insecure`; None otherwise."""
        t, neg = n.test, False
        while isinstance(t, ast.UnaryOp) and isinstance(t.op, ast.Not):
            t, neg = t.operand, not neg
        if norm(t) != 'insecure':
            return None
        a, b = n.body, n.orelse
        return (b, a) if neg else (a, b)

    def has(part, pred):
        parts = part if isinstance(part, list) else [part]
        return any(pred(y) for p_ in parts for y in ast.walk(p_))
    for n in own_nodes(f.node):
        if isinstance(n, (ast.IfExp, ast.If)):
            ab = arms(n)
            if ab is None or not has(ab[0], lambda y: y is call):
                continue
            return has(ab[1], lambda y: isinstance(y, ast.Call) and
                       U.call_name(y) == '_secure_query')
    return False


def tx_cache_lifetime(ctx, rule):
    """The results of the expression functions tasks() / executions() /
    task() / execution() are memoised per DB transaction, keyed by their
    arguments only (not by the caller).  That is safe exactly as long as the
    cache lives and dies with the thread's session: it is created when a
    session is bound to the thread and dropped when the session is unbound,
    by the one function that does both, so no way of ending a transaction
    (commit, rollback, an exception with nothing to roll back) can leave it
    for the next caller served by the thread."""
    prog = ctx.prog
    B = 'mistral.db.sqlalchemy.base'
    KEY = '_TX_SCOPED_CACHE_THREAD_LOCAL_NAME'
    setters = {}
    for q, f in sorted(prog.funcs.items()):
        if '.tests.' in q:
            continue
        for c in own_nodes(f.node):
            if isinstance(c, ast.Call) and \
                    U.call_name(c) == 'set_thread_local' and c.args and \
                    norm(c.args[0]).endswith(KEY):
                setters.setdefault(q, []).append(c)
    rule.check(set(setters) == {B + '._set_thread_local_session'},
               B + ' :: who binds the transaction cache',
               'the per-transaction cache is (re)bound by %s, not only '
               'together with the session' % sorted(setters),
               prog.loc(B + '._set_thread_local_session'))
    f = prog.func(B + '._set_thread_local_session')
    cfg = ctx.cfg(f)
    sp = f.params[0]
    ok = False
    new = [c for c in setters.get(f.qname, []) if len(c.args) > 1 and
           isinstance(c.args[1], ast.Call) and
           U.call_name(c.args[1]) in ('LRUCache', 'dict', 'LFUCache',
                                      'TTLCache')]
    drop = [c for c in setters.get(f.qname, []) if len(c.args) > 1 and
            isinstance(c.args[1], ast.Constant) and c.args[1].value is None]
    if len(new) == 1 and len(drop) == 1:
        T = '%s is None' % sp
        ok = U.guarded(cfg, cfg.node_of(new[0]), T, False) and \
            U.only_guards(cfg, cfg.node_of(new[0]), [(T, False)]) and \
            U.guarded(cfg, cfg.node_of(drop[0]), T, True) and \
            U.only_guards(cfg, cfg.node_of(drop[0]), [(T, True)])
    rule.check(ok, ctx.construct(f, extra='cache lives with the session'),
               'binding a session does not create a fresh transaction cache '
               '/ unbinding it does not drop the cache', ctx.loc(f))
    g = prog.func(B + '.get_tx_scoped_cache')
    rets = [x for x in own_nodes(g.node) if isinstance(x, ast.Return)]
    rule.check(len(rets) == 1 and U.phas(
        rets[0].value, 'utils.get_thread_local(%s)' % KEY) and not [
            c for c in own_nodes(g.node) if isinstance(c, ast.Call) and
            U.call_name(c) != 'get_thread_local'],
        ctx.construct(g, extra='hands out the bound cache only'),
        'get_tx_scoped_cache does more than return the cache bound with '
        'the session', ctx.loc(g))


def linkage_params_not_from_clients(ctx):
    """Workflow._create_execution links a new execution to a parent task
    and a root execution from `params` (the root's environment is what
    env() returns, through an unscoped relationship).  The engine sets these
    for sub-workflows; anything that carries *client* supplied params to
    start_workflow - POST /v2/executions, cron and event triggers - must
    refuse them first (F31)."""
    prog = ctx.prog
    r = ctx.rule('R10', 'parameters that link an execution to a parent task '
                 '/ root execution are refused when they come from a client',
                 'GD + AGREE')
    ce = prog.func('mistral.engine.workflows.Workflow._create_execution')
    linkage = set()
    for d in own_nodes(ce.node):
        if isinstance(d, ast.Dict):
            for k, v in zip(d.keys, d.values):
                if isinstance(k, ast.Constant) and isinstance(v, ast.Call) \
                        and U.call_name(v) == 'get' and \
                        dotted(v.func.value) == 'params' and v.args and \
                        isinstance(v.args[0], ast.Constant) and \
                        k.value.endswith('_execution_id'):
                    linkage.add(v.args[0].value)
    if len(linkage) < 2:
        raise AnalysisError('C15.R10: linkage parameters of '
                            '_create_execution not found')
    try:
        reserved = set(prog.const('mistral.engine.utils',
                                  'RESERVED_WORKFLOW_PARAMS'))
    except Exception:
        reserved = set()
    vf = prog.funcs.get('mistral.engine.utils.validate_workflow_params')
    okv = vf is not None and linkage <= reserved and any(
        isinstance(x, ast.Raise) for x in own_nodes(vf.node)) and \
        U.phas(vf.node, 'RESERVED_WORKFLOW_PARAMS')
    r.check(okv, 'mistral.engine.utils.validate_workflow_params :: refuses '
            'every linkage parameter',
            'the parameters _create_execution takes the parent task / root '
            'execution from (%s) are not all refused by a validator (%s)'
            % (sorted(linkage), sorted(reserved)),
            prog.loc(ce))
    sites = (
        ('mistral.api.controllers.v2.execution.ExecutionsController.post',
         'start_workflow'),
        ('mistral.services.triggers.create_cron_trigger',
         'create_cron_trigger'),
        ('mistral.services.triggers.create_event_trigger',
         'create_event_trigger'),
    )
    for q, sink in sites:
        f = prog.func(q)
        cfg = ctx.cfg(f)
        sinks = [n for n, c in cfg.calls(
            lambda c: U.call_name(c) == sink and
            (dotted(c.func) or '') != q.rsplit('.', 1)[1])]
        vals = [n for n, c in cfg.calls(
            lambda c: U.call_name(c) == 'validate_workflow_params')]
        r.check(bool(sinks) and bool(vals) and all(
            any(cfg.dominates(v, s_) for v in vals) for s_ in sinks),
            ctx.construct(f, extra='client params validated first'),
            'client supplied workflow params reach %s without the linkage '
            'parameters being refused: a caller can attach its execution to '
            'another project\'s execution and read its environment'
            % sink, ctx.loc(f))


def check_mutation(ctx, r3, f):
    cfg = ctx.cfg(f)
    muts = []
    for n, c in cfg.calls():
        nm = U.call_name(c)
        d = U.call_dotted(c)
        if nm == 'update' and isinstance(c.func, ast.Attribute) and \
                isinstance(c.func.value, ast.Name) and \
                c.func.value.id not in ('values', 'kwargs'):
            muts.append((n, c))
        elif d == 'session.delete' or d == 'session.execute':
            muts.append((n, c))
        elif nm == 'delete' and isinstance(c.func, ast.Attribute) and \
                d not in ('table.delete',):
            muts.append((n, c))
        elif nm == 'update_on_match':
            muts.append((n, c))
    if not muts:
        raise AnalysisError('C15.R3: no mutation found in %s' % f.qname)
    names = ownership_wrappers(ctx)
    checks = [(n, c) for n, c in U.calls_in(cfg, *names)]
    # the object(s) whose owner was checked: a local name, or the call that
    # fetched it (and the key it was fetched by)
    checked_names, checked_keys = set(), set()
    for n, c in checks:
        if c.args and isinstance(c.args[0], ast.Name):
            checked_names.add(c.args[0].id)
        elif c.args and isinstance(c.args[0], ast.Call):
            for a in c.args[0].args:
                if isinstance(a, ast.Name):
                    checked_keys.add(a.id)
    for n, c in muts:
        ok = any(cfg.dominates(k, n) and k is not n for k, _c in checks)
        if ok:
            ok = _same_row(c, checked_names, checked_keys)
            if not ok:
                r3.fail(ctx.construct(f, extra=norm(c, 50)),
                        'the mutation is not addressed to the row whose '
                        'owner was checked (e.g. delete by name through '
                        'the secure query also hits a public row of '
                        'another project with the same name)',
                        ctx.loc(f, c))
                continue
        r3.check(ok, ctx.construct(f, extra=norm(c, 50)),
                 'row selected through the public-including secure query is '
                 'mutated without check_db_obj_access (another project can '
                 'change/delete a public or shared resource)', ctx.loc(f, c))


def other_row_mutations(ctx, r3):
    """Who else mutates such a row: any DB-API function (create_or_update_*
    and friends) that changes an object it read through the
    public-including secure query must check its owner first - delegating
    to update_<x> / delete_<x> (which do) is the other accepted form."""
    prog = ctx.prog
    names = ownership_wrappers(ctx)
    readers = set()
    for stem in MUTABLE_PUBLIC:
        readers |= {'get_' + stem, 'load_' + stem, '_get_' + stem}
    enumerated = {'%s_%s' % (v, st) for st in MUTABLE_PUBLIC
                  for v in ('update', 'delete')}
    n = 0
    for f in prog.funcs_in_module(DB):
        if f.parent is not None or f.name in enumerated:
            continue
        cfg = ctx.cfg(f)
        # locals bound to a row of a public / shareable model
        rows = {}
        for x in own_nodes(f.node):
            if isinstance(x, ast.Assign) and len(x.targets) == 1 and \
                    isinstance(x.targets[0], ast.Name) and \
                    isinstance(x.value, ast.Call):
                c = x.value
                model = None
                if c.args and (dotted(c.args[0]) or '').startswith(
                        'models.') and dotted(c.args[0]).split('.')[-1] in \
                        MUTABLE_PUBLIC.values() and \
                        U.call_name(c).startswith('_get_db_object'):
                    model = dotted(c.args[0])
                elif U.call_name(c) in readers:
                    model = U.call_name(c)
                if model:
                    rows[x.targets[0].id] = model
        if not rows:
            continue
        for nd, c in cfg.calls():
            tgt = None
            if U.call_name(c) == 'update' and \
                    isinstance(c.func, ast.Attribute) and \
                    isinstance(c.func.value, ast.Name) and \
                    c.func.value.id in rows:
                tgt = c.func.value.id
            elif U.call_dotted(c) == 'session.delete' and c.args and \
                    isinstance(c.args[0], ast.Name) and \
                    c.args[0].id in rows:
                tgt = c.args[0].id
            if tgt is None:
                continue
            n += 1
            chk = [k for k, cc in U.calls_in(cfg, *names)
                   if cc.args and norm(cc.args[0]) == tgt]
            r3.check(any(cfg.dominates(k, nd) for k in chk),
                     ctx.construct(f, c, extra='owner checked'),
                     '%s changes a %s row it read through the '
                     'public-including secure query without checking its '
                     'owner: a project that uploads a definition with the '
                     'same name as another project\'s public one overwrites '
                     'and takes over that one' % (f.name, rows[tgt]),
                     ctx.loc(f, c))
    return n


def ownership_wrappers(ctx):
    """Names of functions that are ownership checks on their first
    parameter P: the normal exit is unreachable when a security context
    exists, the caller is not an admin and P.project_id differs from the
    caller's project (decided by the state-domain evaluator, so any
    spelling of the test works).  Without a context there is no tenant to
    protect against (internal callers such as DB population)."""
    prog = ctx.prog
    out = []
    cands = [f for f in prog.funcs_in_module(DB)] + \
        [f for f in prog.funcs_in_module('mistral.db.utils')]
    for f in cands:
        if f.parent is not None or not f.params or len(f.params) > 2:
            continue
        src = ast.unparse(f.node)
        if 'project_id' not in src or 'is_admin' not in src:
            continue
        p = f.params[0]
        differs = '%s.project_id != security.get_project_id()' % p
        cfg = ctx.cfg(f)
        variables = [('context.has_ctx()', (False, True)),
                     ('context.ctx().is_admin', (False, True)),
                     ('ctx.is_admin', (False, True)),
                     ('is_admin', (False, True)),
                     (differs, (False, True))]
        IN, keys = ctx.sd.analyze(
            cfg, f, variables,
            alias={'security.get_project_id() != %s.project_id' % p:
                   differs})
        bad = [v for v in IN[cfg.exit.id]
               if v[0] and not v[1] and not v[2] and not v[3] and v[4]]
        if not bad and IN[cfg.exit.id]:
            out.append(f.name)
    if 'check_db_obj_access' not in out:
        raise AnalysisError('C15.R3: db.utils.check_db_obj_access is no '
                            'longer recognised as an ownership check')
    return out


def _same_row(call, checked_names, checked_keys):
    """The mutating call addresses the checked row: obj.update(...) /
    session.delete(obj) on the checked object, or a delete/execute whose
    filter is `<model>.id == <checked>.id` / `== <id it was fetched by>`."""
    nm = U.call_name(call)
    d = U.call_dotted(call)
    if nm == 'update' and isinstance(call.func.value, ast.Name):
        return call.func.value.id in checked_names
    if d == 'session.delete':
        return bool(call.args) and isinstance(call.args[0], ast.Name) and \
            call.args[0].id in checked_names
    if nm == 'update_on_match':
        return True
    txt = ' '.join(ast.unparse(call).split())
    for x in ast.walk(call):
        if isinstance(x, ast.Compare) and len(x.ops) == 1 and \
                isinstance(x.ops[0], ast.Eq):
            l, r = norm(x.left), norm(x.comparators[0])
            if l.endswith('.id'):
                if any(r == n + '.id' for n in checked_names) or \
                        r in checked_keys:
                    return True
    return False


def event_fanout(ctx, rule):
    """An event starts the workflows of the triggers of the event's own
    project and of the triggers that are themselves public - decided per
    trigger.  (A flag about the whole trigger list, such as "some trigger of
    this event type is public", must not select another project's private
    trigger.)"""
    import itertools
    from mstatic.rules import dt
    from mstatic.statedom import Frame, UNK
    prog, sd = ctx.prog, ctx.sd
    f = prog.func('mistral.event_engine.default_event_engine.'
                  'DefaultEventEngine._loop')
    starts = [c for c in own_nodes(f.node) if isinstance(c, ast.Call) and
              U.call_name(c) == '_start_workflow' and c.args]
    if len(starts) != 1 or not isinstance(starts[0].args[0], ast.Name):
        raise AnalysisError('C15.R9: _start_workflow call in _loop')
    L = starts[0].args[0].id
    cond = var = None
    # comprehension form
    for x in own_nodes(f.node):
        if isinstance(x, ast.Assign) and dotted(x.targets[0]) == L and \
                isinstance(x.value, ast.ListComp) and \
                len(x.value.generators) == 1:
            g = x.value.generators[0]
            if norm(x.value.elt) == norm(g.target):
                var = norm(g.target)
                cond = ast.BoolOp(op=ast.And(), values=list(g.ifs)) \
                    if len(g.ifs) > 1 else (g.ifs[0] if g.ifs
                                            else ast.Constant(True))
    # loop + append form
    if cond is None:
        for lp in [x for x in own_nodes(f.node) if isinstance(x, ast.For)]:
            aps = [c for b in lp.body for c in ast.walk(b)
                   if isinstance(c, ast.Call) and U.call_name(c) == 'append'
                   and dotted(c.func.value) == L]
            if len(aps) == 1 and norm(aps[0].args[0]) == norm(lp.target):
                var = norm(lp.target)
                cfg = ctx.cfg(f)
                n = cfg.node_of(aps[0])
                head = [x_ for x_ in cfg.nodes
                        if x_.kind == 'for' and x_.ast is lp]
                outer = {(norm(a, 300), t) for a, t in
                         U.guard_atoms(cfg, head[0])} if head else set()
                inner = [(a, t) for a, t in U.guard_atoms(cfg, n)
                         if (norm(a, 300), t) not in outer and
                         not isinstance(a, ast.For) and
                         norm(a, 300) != norm(lp.iter, 300)]
                parts = [a if t else ast.UnaryOp(op=ast.Not(), operand=a)
                         for a, t in inner]
                cond = ast.BoolOp(op=ast.And(), values=parts) \
                    if len(parts) > 1 else (parts[0] if parts
                                            else ast.Constant(True))
                # locals of the loop body are part of the condition
                for b in lp.body:
                    for z in ast.walk(b):
                        if isinstance(z, ast.Assign) and \
                                isinstance(z.targets[0], ast.Name):
                            cond = _subst(cond, z.targets[0].id, z.value)
    if cond is None:
        raise AnalysisError('C15.R9: selection of the triggers to call')
    kproj = kpub = None
    for x in ast.walk(cond):
        if isinstance(x, ast.Compare) and len(x.ops) == 1 and \
                isinstance(x.ops[0], ast.Eq):
            t = norm(x, 200)
            if "%s['project_id']" % var in t:
                kproj = ' '.join(ast.unparse(x).split())
            if "%s['scope']" % var in t and "'public'" in t:
                kpub = ' '.join(ast.unparse(x).split())
    rule.check(kproj is not None and kpub is not None and
               "context.get('project_id')" in (kproj or ''),
               ctx.construct(f, extra='per-trigger owner and scope'),
               'the triggers to call are not selected by each trigger\'s own '
               'project (== the project of the event) and own scope',
               ctx.loc(f, starts[0]))
    if kproj is None or kpub is None:
        return
    flags = sorted({n_ for n_ in U.names_in(cond)} - {var, 'context'})
    keys = [kproj, kpub] + flags
    fr = Frame(f.module, {}, None, f)
    sd._textkeys = True
    bad = []
    try:
        for vals in itertools.product((True, False), repeat=len(keys)):
            env = dict(zip(keys, vals))
            got = sd.truth(sd.ev(cond, env, fr))
            want = env[kproj] or env[kpub]
            if got is UNK or bool(got) != bool(want):
                bad.append((env, got))
    finally:
        sd._textkeys = False
    rule.check(not bad, ctx.construct(f, extra='own project or own public '
                                      'scope, nothing else'),
               'a trigger is selected %s for %s: the selection must be '
               '"trigger of the event\'s project, or the trigger itself is '
               'public"' % (bad[0][1] if bad else '', bad[0][0] if bad
                            else ''), ctx.loc(f, starts[0]))


def _subst(expr, name, value):
    import copy

    class T(ast.NodeTransformer):
        def visit_Name(self, node):
            if node.id == name and isinstance(node.ctx, ast.Load):
                return copy.deepcopy(value)
            return node
    return T().visit(copy.deepcopy(expr))
