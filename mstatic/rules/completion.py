"""Decision tables of workflow completion and of what a finished task does
next (found as survivors of the mechanical sweep in round three)."""
import ast

from mstatic.core import AnalysisError, dotted, norm, own_nodes
from mstatic.rules import util as U
from mstatic.rules import dt
from mstatic.statedom import OBJ

WF = 'mistral.engine.workflows.Workflow'
TASK = 'mistral.engine.tasks.Task'
TH = 'mistral.engine.task_handler'


def check_and_complete_table(ctx, rule):
    """Workflow.check_and_complete over (workflow state, number of
    incomplete tasks 0..2, some task cancelled, all errors handled): nothing
    happens for a paused / finished workflow or while tasks are pending;
    otherwise CANCELLED if a task was cancelled, else SUCCESS if every error
    was handled, else ERROR."""
    prog, sd = ctx.prog, ctx.sd
    f = prog.func(WF + '.check_and_complete')
    defs = U._single_defs(f.node)
    cnt = [k for k, v in defs.items() if isinstance(v, ast.Call) and
           U.call_name(v) == 'get_incomplete_task_executions_count']
    if len(cnt) != 1:
        raise AnalysisError('check_and_complete: incomplete count')
    ctrl = [k for k, v in defs.items() if isinstance(v, ast.Call) and
            U.call_name(v) == 'get_controller']
    if len(ctrl) != 1:
        raise AnalysisError('check_and_complete: controller')
    kc, ke = '%s.any_cancels()' % ctrl[0], \
        '%s.all_errors_handled()' % ctrl[0]
    ks = 'self.wf_ex.state'
    t = dt.Table(ctx, f, [(ks, sd.ALL), (cnt[0], (0, 1, 2)),
                          (kc, (True, False)), (ke, (True, False))],
                 inline_exclude=(cnt[0], ctrl[0]))
    done = set(sd.pred_set('is_completed')) | {'PAUSED'}

    def live(e):
        return e[ks] not in done and e[cnt[0]] == 0
    sites = {
        '_cancel_workflow': lambda e: live(e) and e[kc],
        '_succeed_workflow': lambda e: live(e) and not e[kc] and e[ke],
        '_fail_workflow': lambda e: live(e) and not e[kc] and not e[ke],
    }
    for name, want in sorted(sites.items()):
        nodes = t.call_nodes(name)
        if len(nodes) != 1:
            raise AnalysisError('check_and_complete: %s call' % name)
        t.check_exact(rule, nodes[0], want,
                      'the workflow is finished through %s' % name,
                      'completion verdict table')
    q = [c for c in own_nodes(f.node) if isinstance(c, ast.Call) and
         U.call_name(c) == 'get_incomplete_task_executions_count']
    kw = {k.arg: norm(k.value) for k in q[0].keywords}
    rule.check(kw == {'workflow_execution_id': 'self.wf_ex.id'},
               ctx.construct(f, q[0], extra='pending tasks of this '
                             'execution'),
               'the pending tasks are not counted for exactly this '
               'execution (%s)' % kw, ctx.loc(f, q[0]))
    t.undecided(rule, 'the workflow state, the number of pending tasks, '
                'cancelled tasks and unhandled errors')


def task_complete_followup(ctx, rule):
    """Task.complete: the follow-up (commands, next_tasks, dispatch) is not
    computed while an after-complete policy holds the task DELAYED (retry,
    wait-after); every routed task is recorded in next_tasks with the event
    that routed to it - the join verdicts read that record."""
    prog, sd = ctx.prog, ctx.sd
    f = prog.func(TASK + '.complete')
    cfg = ctx.cfg(f)
    hooks = U.calls_in(cfg, '_after_task_complete')
    cont = U.calls_in(cfg, 'continue_workflow')
    if not hooks or len(cont) != 1:
        raise AnalysisError('Task.complete: hooks / continue_workflow')
    key = 'self.task_ex.state'
    IN, keys = sd.analyze(
        cfg, f, [(key, sd.state_domain)],
        kill=lambda c: [key] if U.call_name(c) in (
            '_after_task_complete', 'set_state') else ())
    vals = sd.values_at(IN, keys, cont[0][0], key)
    rule.check('DELAYED' not in vals,
               ctx.construct(f, cont[0][1], extra='not while DELAYED'),
               'the follow-up of a task is computed and dispatched although '
               'an after-complete policy (retry, wait-after) has just put it '
               'to DELAYED: the next tasks start before the retry / the '
               'delay is over', ctx.loc(f, cont[0][1]))
    base = {(norm(a), t) for a, t in U.guard_atoms(cfg, cont[0][0])}
    extra = [x for h, _c in hooks
             for x in [(norm(a), t) for a, t in U.guard_atoms(cfg, h)]
             if x not in base and 'is_skipped' not in x[0]]
    rule.check(all(cfg.paths_between(h, cont[0][0]) for h, _c in hooks) and
               not extra,
               ctx.construct(f, extra='policies before the follow-up'),
               'the after-complete policies do not run before the follow-up '
               'is computed', ctx.loc(f))
    # next_tasks: one (name, event) per task command
    cmds = [dotted(x.targets[0]) for x in own_nodes(f.node)
            if isinstance(x, ast.Assign) and x.value is cont[0][1]]
    loops = [x for x in own_nodes(f.node) if isinstance(x, ast.For) and
             cmds and norm(x.iter) == cmds[0]]
    ok = False
    if len(loops) == 1:
        lp = loops[0]
        aps = [c for b in lp.body for c in ast.walk(b)
               if isinstance(c, ast.Call) and U.call_name(c) == 'append' and
               norm(c.func.value) == 'self.task_ex.next_tasks']
        if len(aps) == 1 and isinstance(aps[0].args[0], ast.Tuple):
            n = cfg.node_of(aps[0])
            facts = [(norm(a), t) for a, t in U.guard_atoms(cfg, n)
                     if norm(lp.target) in U.names_in(a)]
            name_ok = norm(aps[0].args[0].elts[0]) == \
                '%s.task_spec.get_name()' % norm(lp.target)
            ev = U.canon_expr(f.node, aps[0].args[0].elts[1])
            ev_ok = "triggered_by[0]['event']" in norm(ev, 200)
            ok = name_ok and ev_ok and facts == [
                ('commands.is_engine_command(%s)' % norm(lp.target), False)]
        reset = [x for x in own_nodes(f.node) if isinstance(x, ast.Assign)
                 and norm(x.targets[0]) == 'self.task_ex.next_tasks' and
                 isinstance(x.value, ast.List) and not x.value.elts]
        ok = ok and len(reset) == 1 and cfg.dominates(
            cfg.stmt_node(reset[0]), cfg.node_of(aps[0]))
    rule.check(ok, ctx.construct(f, extra='next_tasks = (name, event) of '
                                 'every task command'),
               'the tasks a completed task routes to are not all recorded in '
               'next_tasks with the routing event (engine commands '
               'excluded): a join sees the task as "not routed" and fails, '
               'or takes its data from the wrong event', ctx.loc(f))
    hn = [x for x in own_nodes(f.node) if isinstance(x, ast.Assign) and
          norm(x.targets[0]) == 'self.task_ex.has_next_tasks']
    rule.check(len(hn) == 1 and norm(hn[0].value) ==
               'bool(self.task_ex.next_tasks)',
               ctx.construct(f, extra='has_next_tasks'),
               'has_next_tasks is not "next_tasks is non-empty" (it decides '
               'whether the task may complete the workflow)', ctx.loc(f))


def regular_on_action_complete(ctx, rule):
    """A regular task ends in the state of its action."""
    prog = ctx.prog
    f = prog.func('mistral.engine.tasks.RegularTask.on_action_complete')
    cfg = ctx.cfg(f)
    comp = U.calls_in(cfg, 'complete')
    ok = len(comp) == 1 and not U.guard_atoms(cfg, comp[0][0])
    if ok:
        a0 = U.canon_expr(f.node, comp[0][1].args[0])
        ok = norm(a0) == '%s.state' % f.params[1]
    rule.check(ok, ctx.construct(f, extra='task state = action state'),
               'the task is not completed, unconditionally, with the state '
               'of the delivered action execution', ctx.loc(f))


def rerun_waiting_task(ctx, rule):
    """create_task / run_task: a waiting task that is re-run is put to
    WAITING and gets a refresh - exactly then."""
    prog = ctx.prog
    for fq in (TH + '.create_task', TH + '.run_task'):
        f = prog.func(fq)
        defs = U._single_defs(f.node)
        tv = [k for k, v in defs.items() if isinstance(v, ast.Call) and
              U.call_name(v) in ('_build_task_from_command',
                                 '_build_task_after_rpc')]
        if len(tv) != 1:
            raise AnalysisError('%s: task variable' % fq)
        kw_, kr = '%s.waiting' % tv[0], '%s.rerun' % tv[0]
        t = dt.Table(ctx, f, [(kw_, (True, False)), (kr, (True, False))],
                     inline_exclude=(tv[0],))
        for name in ('set_state', '_schedule_refresh_task_state'):
            nodes = [n for n in t.call_nodes(name)]
            if len(nodes) != 1:
                raise AnalysisError('%s: %s call' % (fq, name))
            t.check_exact(rule, nodes[0], lambda e: e[kw_] and e[kr],
                          '%s is called' % name,
                          're-run of a waiting task')
        ss = [c for n, c in t.cfg.calls(lambda c: U.is_call(c, 'set_state'))]
        tgt = ctx.sd.ev(ss[0].args[0], {}, dt.Frame(f.module))
        rule.check(tgt == 'WAITING', ctx.construct(f, ss[0]),
                   'a re-run waiting task is put to %s, not WAITING' % tgt,
                   ctx.loc(f, ss[0]))
