"""Decision tables of workflow completion and of what a finished task does
next (found as survivors of the mechanical sweep in round three)."""
import ast

from mstatic.core import AnalysisError, dotted, norm, own_nodes
from mstatic.rules import util as U
from mstatic.rules import dt
from mstatic.statedom import OBJ

WF = 'mistral.engine.workflows.Workflow'
TASK = 'mistral.engine.tasks.Task'
TH = 'mistral.engine.task_handler'


def check_and_complete_table(ctx, rule):
    """Workflow.check_and_complete over (workflow state, number of
    incomplete tasks 0..2, some task cancelled, all errors handled): nothing
    happens for a paused / finished workflow or while tasks are pending;
    otherwise CANCELLED if a task was cancelled, else SUCCESS if every error
    was handled, else ERROR."""
    prog, sd = ctx.prog, ctx.sd
    f = prog.func(WF + '.check_and_complete')
    defs = U._single_defs(f.node)
    cnt = [k for k, v in defs.items() if isinstance(v, ast.Call) and
           U.call_name(v) == 'get_incomplete_task_executions_count']
    if len(cnt) != 1:
        raise AnalysisError('check_and_complete: incomplete count')
    ctrl = [k for k, v in defs.items() if isinstance(v, ast.Call) and
            U.call_name(v) == 'get_controller']
    if len(ctrl) != 1:
        raise AnalysisError('check_and_complete: controller')
    kc, ke = '%s.any_cancels()' % ctrl[0], \
        '%s.all_errors_handled()' % ctrl[0]
    ks = 'self.wf_ex.state'
    t = dt.Table(ctx, f, [(ks, sd.ALL), (cnt[0], (0, 1, 2)),
                          (kc, (True, False)), (ke, (True, False))],
                 inline_exclude=(cnt[0], ctrl[0]))
    done = set(sd.pred_set('is_completed')) | {'PAUSED'}

    def live(e):
        return e[ks] not in done and e[cnt[0]] == 0
    sites = {
        '_cancel_workflow': lambda e: live(e) and e[kc],
        '_succeed_workflow': lambda e: live(e) and not e[kc] and e[ke],
        '_fail_workflow': lambda e: live(e) and not e[kc] and not e[ke],
    }
    for name, want in sorted(sites.items()):
        nodes = t.call_nodes(name)
        if len(nodes) != 1:
            raise AnalysisError('check_and_complete: %s call' % name)
        t.check_exact(rule, nodes[0], want,
                      'the workflow is finished through %s' % name,
                      'completion verdict table')
    q = [c for c in own_nodes(f.node) if isinstance(c, ast.Call) and
         U.call_name(c) == 'get_incomplete_task_executions_count']
    kw = {k.arg: norm(k.value) for k in q[0].keywords}
    rule.check(kw == {'workflow_execution_id': 'self.wf_ex.id'},
               ctx.construct(f, q[0], extra='pending tasks of this '
                             'execution'),
               'the pending tasks are not counted for exactly this '
               'execution (%s)' % kw, ctx.loc(f, q[0]))
    t.undecided(rule, 'the workflow state, the number of pending tasks, '
                'cancelled tasks and unhandled errors')


def task_complete_followup(ctx, rule):
    """Task.complete: the follow-up (commands, next_tasks, dispatch) is not
    computed while an after-complete policy holds the task DELAYED (retry,
    wait-after); every routed task is recorded in next_tasks with the event
    that routed to it - the join verdicts read that record."""
    prog, sd = ctx.prog, ctx.sd
    f = prog.func(TASK + '.complete')
    cfg = ctx.cfg(f)
    hooks = U.calls_in(cfg, '_after_task_complete')
    cont = U.calls_in(cfg, 'continue_workflow')
    if not hooks or len(cont) != 1:
        raise AnalysisError('Task.complete: hooks / continue_workflow')
    key = 'self.task_ex.state'
    IN, keys = sd.analyze(
        cfg, f, [(key, sd.state_domain)],
        kill=lambda c: [key] if U.call_name(c) in (
            '_after_task_complete', 'set_state') else ())
    vals = sd.values_at(IN, keys, cont[0][0], key)
    rule.check('DELAYED' not in vals,
               ctx.construct(f, cont[0][1], extra='not while DELAYED'),
               'the follow-up of a task is computed and dispatched although '
               'an after-complete policy (retry, wait-after) has just put it '
               'to DELAYED: the next tasks start before the retry / the '
               'delay is over', ctx.loc(f, cont[0][1]))
    base = {(norm(a), t) for a, t in U.guard_atoms(cfg, cont[0][0])}
    extra = [x for h, _c in hooks
             for x in [(norm(a), t) for a, t in U.guard_atoms(cfg, h)]
             if x not in base and 'is_skipped' not in x[0]]
    rule.check(all(cfg.paths_between(h, cont[0][0]) for h, _c in hooks) and
               not extra,
               ctx.construct(f, extra='policies before the follow-up'),
               'the after-complete policies do not run before the follow-up '
               'is computed', ctx.loc(f))
    # next_tasks: one (name, event) per task command
    cmds = [dotted(x.targets[0]) for x in own_nodes(f.node)
            if isinstance(x, ast.Assign) and x.value is cont[0][1]]
    loops = [x for x in own_nodes(f.node) if isinstance(x, ast.For) and
             cmds and norm(x.iter) == cmds[0]]
    ok = False
    if len(loops) == 1:
        lp = loops[0]
        aps = [c for b in lp.body for c in ast.walk(b)
               if isinstance(c, ast.Call) and U.call_name(c) == 'append' and
               norm(c.func.value) == 'self.task_ex.next_tasks']
        if len(aps) == 1 and isinstance(aps[0].args[0], ast.Tuple):
            n = cfg.node_of(aps[0])
            facts = [(norm(a), t) for a, t in U.guard_atoms(cfg, n)
                     if norm(lp.target) in U.names_in(a)]
            name_ok = norm(aps[0].args[0].elts[0]) == \
                '%s.task_spec.get_name()' % norm(lp.target)
            ev = U.canon_expr(f.node, aps[0].args[0].elts[1])
            ev_ok = "triggered_by[0]['event']" in norm(ev, 200)
            ok = name_ok and ev_ok and facts == [
                ('commands.is_engine_command(%s)' % norm(lp.target), False)]
        reset = [x for x in own_nodes(f.node) if isinstance(x, ast.Assign)
                 and norm(x.targets[0]) == 'self.task_ex.next_tasks' and
                 isinstance(x.value, ast.List) and not x.value.elts]
        ok = ok and len(reset) == 1 and cfg.dominates(
            cfg.stmt_node(reset[0]), cfg.node_of(aps[0]))
    rule.check(ok, ctx.construct(f, extra='next_tasks = (name, event) of '
                                 'every task command'),
               'the tasks a completed task routes to are not all recorded in '
               'next_tasks with the routing event (engine commands '
               'excluded): a join sees the task as "not routed" and fails, '
               'or takes its data from the wrong event', ctx.loc(f))
    hn = [x for x in own_nodes(f.node) if isinstance(x, ast.Assign) and
          norm(x.targets[0]) == 'self.task_ex.has_next_tasks']
    rule.check(len(hn) == 1 and norm(hn[0].value) ==
               'bool(self.task_ex.next_tasks)',
               ctx.construct(f, extra='has_next_tasks'),
               'has_next_tasks is not "next_tasks is non-empty" (it decides '
               'whether the task may complete the workflow)', ctx.loc(f))


def regular_on_action_complete(ctx, rule):
    """A regular task ends in the state of its action."""
    prog = ctx.prog
    f = prog.func('mistral.engine.tasks.RegularTask.on_action_complete')
    cfg = ctx.cfg(f)
    comp = U.calls_in(cfg, 'complete')
    ok = len(comp) == 1 and not U.guard_atoms(cfg, comp[0][0])
    if ok:
        a0 = U.canon_expr(f.node, comp[0][1].args[0])
        ok = norm(a0) == '%s.state' % f.params[1]
    rule.check(ok, ctx.construct(f, extra='task state = action state'),
               'the task is not completed, unconditionally, with the state '
               'of the delivered action execution', ctx.loc(f))


def rerun_waiting_task(ctx, rule):
    """create_task / run_task: a waiting task that is re-run is put to
    WAITING and gets a refresh - exactly then."""
    prog = ctx.prog
    for fq in (TH + '.create_task', TH + '.run_task'):
        f = prog.func(fq)
        defs = U._single_defs(f.node)
        tv = [k for k, v in defs.items() if isinstance(v, ast.Call) and
              U.call_name(v) in ('_build_task_from_command',
                                 '_build_task_after_rpc')]
        if len(tv) != 1:
            raise AnalysisError('%s: task variable' % fq)
        kw_, kr = '%s.waiting' % tv[0], '%s.rerun' % tv[0]
        t = dt.Table(ctx, f, [(kw_, (True, False)), (kr, (True, False))],
                     inline_exclude=(tv[0],))
        for name in ('set_state', '_schedule_refresh_task_state'):
            nodes = [n for n in t.call_nodes(name)]
            if len(nodes) != 1:
                raise AnalysisError('%s: %s call' % (fq, name))
            t.check_exact(rule, nodes[0], lambda e: e[kw_] and e[kr],
                          '%s is called' % name,
                          're-run of a waiting task')
        ss = [c for n, c in t.cfg.calls(lambda c: U.is_call(c, 'set_state'))]
        tgt = ctx.sd.ev(ss[0].args[0], {}, dt.Frame(f.module))
        rule.check(tgt == 'WAITING', ctx.construct(f, ss[0]),
                   'a re-run waiting task is put to %s, not WAITING' % tgt,
                   ctx.loc(f, ss[0]))


def comparator_table(ctx, rule):
    """dispatcher._compare_task_commands over (a is a waiting RunTask, b is
    one, keys <, ==, >): commands that lock a join are ordered among
    themselves by unique_key (antisymmetric: cmp(a, b) = -cmp(b, a)), so
    parallel transactions take the join locks in one order."""
    prog, sd = ctx.prog, ctx.sd
    f = prog.func('mistral.engine.dispatcher._compare_task_commands')
    a, b = f.params[:2]
    ka1, ka2 = 'isinstance(%s, commands.RunTask)' % a, '%s.is_waiting()' % a
    kb1, kb2 = 'isinstance(%s, commands.RunTask)' % b, '%s.is_waiting()' % b
    keq = '%s.unique_key == %s.unique_key' % (a, b)
    klt = '%s.unique_key < %s.unique_key' % (a, b)
    t = dt.Table(ctx, f, [(ka1, (True, False)), (ka2, (True, False)),
                          (kb1, (True, False)), (kb2, (True, False)),
                          (keq, (True, False)), (klt, (True, False))],
                 constraint=lambda e: not (e[keq] and e[klt]))
    rets = t.stmt_nodes(lambda x: isinstance(x, ast.Return))
    bad = []
    seen = set()
    for n in rets:
        for v in t.full_at(n):
            e = t.env(v)
            got = t.ev(n.ast.value, v)
            seen.add(v[:t.n_in])
            aw = e[ka1] and e[ka2]
            bw = e[kb1] and e[kb2]
            if aw and bw:
                want = 0 if e[keq] else (-1 if e[klt] else 1)
                if got != want:
                    bad.append((e, got, want))
            elif not aw and bw and got != -1:
                bad.append((e, got, -1))
            elif aw and not bw and got != 1:
                bad.append((e, got, 1))
    lost = [v for v in t.init_inputs if v not in seen]
    msg = ''
    if bad:
        msg = 'the comparator answers %s where the order by unique key ' \
              'requires %s for %s; ' % (bad[0][1], bad[0][2], bad[0][0])
    rule.check(not bad and not lost,
               ctx.construct(f, extra='waiting commands ordered by unique '
                             'key'),
               '%s%d valuation(s) wrong, %d without an answer: two '
               'transactions can take the join locks in different orders'
               % (msg, len(bad), len(lost)), ctx.loc(f))
    t.undecided(rule, 'which of the two commands wait for a join and how '
                'their keys compare')


def scheduled_completion_loads(ctx, rule):
    """The scheduled completion / update of a with-items child loads the
    child from the table it lives in: a sub-workflow (wf_action) from the
    workflow executions, a plain action from the action executions."""
    prog = ctx.prog
    for fq, h in ((TH + '._scheduled_on_action_complete',
                   '_on_action_complete'),
                  (TH + '._scheduled_on_action_update',
                   '_on_action_update')):
        f = prog.func(fq)
        P = f.params
        t = dt.Table(ctx, f, [(P[1], (True, False))])
        wl = t.call_nodes('load_workflow_execution')
        al = t.call_nodes('load_action_execution')
        if len(wl) != 1 or len(al) != 1:
            raise AnalysisError('%s: loads' % fq)
        t.check_exact(rule, wl[0], lambda e: e[P[1]],
                      'the child is loaded as a workflow execution',
                      'sub-workflow children')
        t.check_exact(rule, al[0], lambda e: not e[P[1]],
                      'the child is loaded as an action execution',
                      'plain action children')
        for n, c in t.cfg.calls(lambda c: U.call_name(c) in (
                'load_workflow_execution', 'load_action_execution')):
            rule.check([norm(x) for x in c.args] == [P[0]],
                       ctx.construct(f, c, extra='the reported id'),
                       'the child is not loaded by the id the job was '
                       'scheduled for', ctx.loc(f, c))
        t.undecided(rule, 'whether the child is a sub-workflow')


def backlog_poll(ctx, rule):
    """Every command saved to the backlog is restored and returned, in
    order, and the backlog is emptied."""
    prog = ctx.prog
    f = prog.func('mistral.engine.dispatcher._poll_commands_from_backlog')
    W = f.params[0]
    kget = '%s.runtime_context.get(BACKLOG_KEY)' % W
    t = dt.Table(ctx, f, [(kget, ((), OBJ))])
    pops = t.call_nodes('pop')
    rets = t.stmt_nodes(lambda x: isinstance(x, ast.Return))
    ok = len(pops) == 1 and len(rets) == 2
    if ok:
        ok = t.inputs_at(pops[0]) == {(OBJ,)}
        for n in rets:
            v = n.ast.value
            if isinstance(v, ast.List) and not v.elts:
                ok = ok and t.inputs_at(n) == {((),)}
            elif isinstance(v, ast.ListComp):
                g = v.generators[0]
                src = U.canon_expr(f.node, g.iter)
                ok = ok and t.inputs_at(n) == {(OBJ,)} and not g.ifs and \
                    U.phas(src, '%s.runtime_context.pop(BACKLOG_KEY)' % W) \
                    and U.phas(v.elt, 'commands.restore_command_from_dict('
                               '%s, %s)' % (W, norm(g.target)))
            else:
                ok = False
    rule.check(ok, ctx.construct(f, extra='all saved commands restored, '
                                 'backlog emptied'),
               'the commands saved while the workflow was paused are not '
               'all restored (exactly when there are some) and removed from '
               'the backlog', ctx.loc(f))
