"""C12 - rerun or skip of a failed task resumes the run correctly."""
import ast

from mstatic.core import AnalysisError, dotted, norm, own_nodes
from mstatic.rules import util as U
from mstatic.statedom import OBJ, OTHER

WF = 'mistral.engine.workflows.Workflow'
WH = 'mistral.engine.workflow_handler'
RT = 'mistral.engine.tasks.RegularTask'
WC = 'mistral.workflow.base.WorkflowController'


def recursive_rerun(ctx, rule):
    prog = ctx.prog
    rc = prog.func(WF + '._recursive_rerun')
    cfg = ctx.cfg(rc)
    st = U.calls_in(cfg, 'set_state')
    lk = cfg.calls(lambda c: U.call_name(c) == 'lock')
    rec = U.calls_in(cfg, '_recursive_rerun')
    mk = U.calls_in(cfg, 'mark_task_running')
    ok = bool(st) and bool(lk) and bool(rec) and bool(mk) and \
        norm(st[0][1].args[0]) == 'states.RUNNING' and \
        cfg.dominates(lk[0][0], rec[0][0]) and \
        cfg.dominates(rec[0][0], mk[0][0])
    rule.check(ok, ctx.construct(rc), 'parents are not locked, re-run and '
             'their task marked RUNNING in that order', ctx.loc(rc))
    for n, c in rec + mk:
        g = U.polarity_guard(
            cfg, n, lambda t: norm(t) == 'self.wf_ex.task_execution_id')
        rule.check(g is not None and g[1] is True,
                 ctx.construct(rc, extra=U.call_name(c) + ' only with '
                               'parent'),
                 'recursion into a parent without a parent task id',
                 ctx.loc(rc, c))
    # the walk up to the parents does not depend on this workflow's own
    # state (it may still be RUNNING because of a parallel branch while an
    # enclosing workflow has already failed), only on having a parent
    for n, c in st + rec + mk:
        facts = sorted((norm(a), t) for a, t in U.guard_atoms(cfg, n))
        want = [] if (n, c) in st else [('self.wf_ex.task_execution_id',
                                         True)]
        rule.check(facts == want,
                 ctx.construct(rc, extra=U.call_name(c) + ' whatever the '
                               'state of this workflow'),
                 '%s in _recursive_rerun is additionally conditioned (%s): '
                 'enclosing workflows / parent tasks are not put back to '
                 'RUNNING and the new result of the re-run task is never '
                 'taken into account' % (U.call_name(c), facts),
                 ctx.loc(rc, c))
    mt = prog.func('mistral.engine.task_handler.mark_task_running')
    rule.check(any(isinstance(n, ast.Call) and U.call_name(n) == 'set_state'
                 and norm(n.args[0]) == 'states.RUNNING'
                 for n in own_nodes(mt.node)), ctx.construct(mt),
             'parent task is not set RUNNING', ctx.loc(mt))


def run(ctx):
    _run(ctx)
    r8 = ctx.rule('R8', 'a re-run task keeps the record of what triggered '
                  'it: it is continued with the data of the task that '
                  'started it (shared with C05.R9)', 'PAIR (save/restore)')
    from mstatic.rules import shared as _shr
    _shr.rerun_keeps_triggered_by(ctx, r8)
    from mstatic.rules import c06 as _c06
    r7 = ctx.rule('R7', 'the reset / skip / env choices of a rerun request '
                  'reach the engine as the client sent them (RPC server '
                  'forwards parameters unchanged)', 'AGREE')
    _c06.rpc_params_forwarded_unchanged(ctx, r7)
    r6 = ctx.rule('R6', 'a partial rerun selects exactly the completed, '
                  'unaccepted items (shared with C07.R10)',
                  'DT (element predicates)')
    from mstatic.rules import cmdcalc
    cmdcalc.with_items_predicates(ctx, r6)


def _run(ctx):
    prog, sd = ctx.prog, ctx.sd
    S = sd.consts
    completed = sd.pred_set('is_completed')
    dom = sd.ALL + (None, OTHER)

    # ---- R1 REST admits only ERROR -> RUNNING/SKIPPED -------------------------
    r1 = ctx.rule('R1', 'rerun/skip is admitted only for ERROR tasks and '
                  'RUNNING/SKIPPED targets, reset mandatory unless '
                  'with-items', 'STATE')
    tp = prog.func('mistral.api.controllers.v2.task.TasksController.put')
    cfg = ctx.cfg(tp)
    wi = 'task_spec.get_with_items()'
    IN, keys = sd.analyze(cfg, tp, [
        ('task.state', dom), ('task_ex.state', sd.state_domain),
        ('reset', (None, True)), (wi, (None, OBJ))])
    sinks = U.calls_in(cfg, 'rerun_workflow')
    if not sinks:
        raise AnalysisError('C12.R1: rerun_workflow call lost')
    for n, c in sinks:
        vals = IN[n.id]
        req = {v[0] for v in vals}
        cur = {v[1] for v in vals}
        r1.check(req == {S['RUNNING'], S['SKIPPED']},
                 ctx.construct(tp, extra='requested state'),
                 'rerun reachable exactly for requested states %s'
                 % sorted(map(str, req)), ctx.loc(tp, c))
        r1.check(cur == {S['ERROR']},
                 ctx.construct(tp, extra='current state'),
                 'rerun reachable for current task states %s'
                 % sorted(map(str, cur)), ctx.loc(tp, c))
        bad = [v for v in vals if v[0] == S['RUNNING'] and not v[2] and
               not v[3]]
        r1.check(not bad, ctx.construct(tp, extra='reset rule'),
                 'rerun without reset is possible for a task without '
                 'with-items', ctx.loc(tp, c))
        sk = U.kwarg(c, 'skip')
        skv = None
        if sk is not None:
            # evaluate the skip expression per requested state
            from mstatic.statedom import Frame
            fr = Frame(tp.module, {}, None, tp)
            skv = {s: sd.ev(sk, {'task.state': s}, fr)
                   for s in (S['RUNNING'], S['SKIPPED'])}
        r1.check(skv == {S['RUNNING']: False, S['SKIPPED']: True},
                 ctx.construct(tp, extra='skip flag'),
                 'skip flag is not "requested state is SKIPPED": %s' % skv,
                 ctx.loc(tp, c))
        r1.check(norm(c.args[0]) == 'task_ex.id' and
                 dotted(U.kwarg(c, 'reset')) == 'reset',
                 ctx.construct(tp, extra='arguments'),
                 'rerun is not requested for the task that was checked, '
                 'with the requested reset flag', ctx.loc(tp, c))

    # ---- R2 engine-side refusals -------------------------------------------------
    r2 = ctx.rule('R2', 'succeeded tasks, paused and finished workflows '
                  'are refused', 'GD')
    re_ = prog.func(RT + '._run_existing')
    cfg = ctx.cfg(re_)
    IN, keys = sd.analyze(cfg, re_, [('self.task_ex.state',
                                      sd.state_domain)])
    for n, c in U.calls_in(cfg, 'set_state', '_schedule_actions',
                           '_reset_actions'):
        vals = sd.values_at(IN, keys, n, 'self.task_ex.state')
        if U.call_name(c) == 'set_state':
            r2.check(S['SUCCESS'] not in vals, ctx.construct(re_, c),
                     'a SUCCESS task can be run again', ctx.loc(re_, c))
    raises = [x for x in cfg.nodes if x.kind == 'stmt' and
              isinstance(x.ast, ast.Raise)]
    r2.check(any(sd.values_at(IN, keys, x, 'self.task_ex.state') ==
                 {S['SUCCESS']} for x in raises),
             ctx.construct(re_, extra='SUCCESS raises'),
             'rerunning a succeeded task does not raise', ctx.loc(re_))
    rw = prog.func(WH + '.rerun_workflow')
    cfg = ctx.cfg(rw)
    IN, keys = sd.analyze(cfg, rw, [('wf_ex.state', sd.state_domain)],
                          kill=lambda c: ())
    for n, c in cfg.calls(lambda c: U.call_name(c) == 'rerun' and
                          isinstance(c.func, ast.Attribute)):
        vals = sd.values_at(IN, keys, n, 'wf_ex.state')
        r2.check(S['PAUSED'] not in vals, ctx.construct(rw, c),
                 'rerun reaches a PAUSED workflow', ctx.loc(rw, c))
        need = {S['ERROR'], S['CANCELLED'], S['RUNNING']}
        r2.check(need <= vals, ctx.construct(rw, extra='rerun admitted'),
                 'rerun does not reach workflows in %s'
                 % sorted(need - vals), ctx.loc(rw, c))
    for name, mk in (('rerun_tasks', 'RunExistingTask'),
                     ('skip_tasks', 'SkipTask')):
        f = prog.func(WC + '.' + name)
        cfg = ctx.cfg(f)
        IN, keys = sd.analyze(cfg, f, [('self.wf_ex.state',
                                        sd.state_domain)])
        got = U.calls_in(cfg, mk)
        if not got:
            raise AnalysisError('C12.R2: %s no longer builds %s'
                                % (name, mk))
        for n, c in got:
            vals = sd.values_at(IN, keys, n, 'self.wf_ex.state')
            bad = vals & (completed | {S['PAUSED']})
            r2.check(not bad, ctx.construct(f, extra=mk),
                     '%s commands are produced while the workflow is %s'
                     % (mk, sorted(bad)), ctx.loc(f, c))
            if mk == 'RunExistingTask':
                r2.check(U.kwarg(c, 'rerun') is not None and
                         norm(U.kwarg(c, 'rerun')) == 'True' and
                         any(dotted(a) == 'reset' for a in c.args),
                         ctx.construct(f, extra='rerun=True, reset'),
                         'rerun commands do not carry rerun=True and the '
                         'reset flag', ctx.loc(f, c))

    # ---- R5 rerun makes the task unprocessed again -----------------------------
    r5 = ctx.rule('R5', 'a finished task that is put back to RUNNING is '
                  'marked unprocessed (resume and completion look for '
                  '"completed and not processed")', 'GD')

    def proc_arg(c):
        k = U.kwarg(c, 'processed')
        if k is None and len(c.args) >= 3:
            k = c.args[2]
        return k
    n_sites = 0
    for q in (RT + '._run_existing',
              'mistral.engine.task_handler.mark_task_running'):
        f = prog.func(q)
        fcfg = ctx.cfg(f)
        for n, c in U.calls_in(fcfg, 'set_state'):
            if not c.args or norm(c.args[0]) != 'states.RUNNING':
                continue
            n_sites += 1
            k = proc_arg(c)
            r5.check(k is not None and norm(k) == 'False',
                     ctx.construct(f, extra='processed=False'),
                     'the task goes back to RUNNING keeping processed=True '
                     'from its previous attempt: if the workflow is paused '
                     'when the new attempt completes, resume does not find '
                     'the task and its successors never run', ctx.loc(f, c))
    if n_sites < 2:
        raise AnalysisError('C12.R5: set_state(RUNNING) sites lost')
    from mstatic.rules import shared as _sh
    _sh.build_task_from_command(ctx, r5)
    # the new attempt is scheduled only after its inbound context was
    # recomputed and the executions of the old attempt were un-accepted
    rex = prog.func(RT + '._run_existing')
    xcfg = ctx.cfg(rex)
    sch = U.calls_in(xcfg, '_schedule_actions')
    if not sch:
        raise AnalysisError('C12.R5: _run_existing no longer schedules')
    for pre in ('_reset_actions', '_update_inbound_context', 'set_state'):
        got = [n for n, c in U.calls_in(xcfg, pre)]
        r5.check(bool(got) and all(
            xcfg.must_pass(xcfg.entry, got, exits=[n]) for n, c in sch),
            ctx.construct(rex, extra=pre + ' before scheduling'),
            'actions of the new attempt can be scheduled without %s() '
            'having run' % pre, ctx.loc(rex))
    ts = prog.func('mistral.engine.tasks.Task.set_state')
    tcfg = ctx.cfg(ts)
    st = [x for t, x in U.attr_stores(ts.node)
          if norm(t) == 'self.task_ex.processed']
    okp = False
    for x in st:
        sn = tcfg.stmt_node(x)
        okp = okp or (norm(x.value) == 'processed' and
                      U.guarded(tcfg, sn, 'processed is None', False) and
                      all('processed' in norm(a_) or
                          U.phas(a_, 'task_ex is None') or
                          'cur_state' in norm(a_) or 'state_info' in norm(a_)
                          for a_, t_ in U.guard_atoms(tcfg, sn)))
    r5.check(okp, ctx.construct(ts, extra='stores processed'),
             'Task.set_state does not store a given processed flag on '
             'every successful state change', ctx.loc(ts))

    # ---- R3 rerun order ----------------------------------------------------------------
    r3 = ctx.rule('R3', 'rerun puts the workflow tree back to RUNNING '
                  'before computing commands and continues', 'PAIR')
    rr = prog.func(WF + '.rerun')
    cfg = ctx.cfg(rr)
    a = U.calls_in(cfg, '_recursive_rerun')
    cmds = U.calls_in(cfg, 'rerun_tasks', 'skip_tasks')
    cont = U.calls_in(cfg, '_continue_workflow')
    r3.check(bool(a) and len(cmds) == 2 and bool(cont) and all(
        cfg.dominates(a[0][0], n) for n, _c in cmds) and
        cfg.must_pass(a[0][0], [n for n, _c in cont]),
        ctx.construct(rr, extra='order'),
        'rerun does not call _recursive_rerun before computing commands '
        'and end in _continue_workflow', ctx.loc(rr))
    IN, keys = sd.analyze(cfg, rr, [('skip', (False, True))],
                          kill=lambda c: ())
    for n, c in cmds:
        vals = sd.values_at(IN, keys, n, 'skip')
        want = {True} if U.call_name(c) == 'skip_tasks' else {False}
        r3.check(vals == want, ctx.construct(rr, extra=U.call_name(c)),
                 '%s reached for skip=%s' % (U.call_name(c), sorted(vals)),
                 ctx.loc(rr, c))
    cl = U.calls_in(cfg, 'cleanup_runtime_context')
    ok = False
    for n, c in cl:
        ok = U.guarded(cfg, n, 'cmds', True) and \
            U.only_guards(cfg, n, [('cmds', True)]) and \
            all(cfg.dominates(n, k) or not cfg.paths_between(k, n)
                for k, _c in cont)
    r3.check(ok, ctx.construct(rr, extra='runtime context cleaned'),
             'the task runtime context (policy counters, with-items '
             'capacity) is not cleaned whenever the task is re-run - e.g. '
             'only with reset', ctx.loc(rr))
    recursive_rerun(ctx, r3)

    # ---- R4 reset / skip semantics ------------------------------------------------------
    r4 = ctx.rule('R4', 'partial rerun re-accepts only failed items; skip '
                  'completes with SKIPPED and follows on-skip', 'GD')
    from mstatic.rules import shared as _shd
    _shd.upstream_states_are_completed_states(ctx, r4)
    from mstatic.rules import c04 as _c04
    _c04.reverse_rules(ctx, r4)
    ra = prog.func(RT + '._reset_actions')
    cfg = ctx.cfg(ra)
    sel = [n for n in own_nodes(ra.node) if isinstance(n, ast.ListComp)]
    ok = False
    for lc in sel:
        conds = [norm(c) for g in lc.generators for c in g.ifs]
        ok = ok or any('e.accepted' in c and 'states.ERROR' in c and
                       'states.CANCELLED' in c for c in conds)
    g_all = [n for n in own_nodes(ra.node) if isinstance(n, ast.Assign) and
             dotted(n.targets[0]) == 'execs' and
             norm(n.value) == 'self.task_ex.executions']
    okall = False
    for n in g_all:
        sn = cfg.stmt_node(n)
        g = U.polarity_guard(cfg, sn, lambda t: norm(t) == 'self.reset_flag')
        okall = g is not None and g[1] is True
    r4.check(ok and okall, ctx.construct(ra),
             'without reset, executions other than accepted ERROR/CANCELLED '
             'are selected; or with reset not all are', ctx.loc(ra))
    un = [st for t, st in U.attr_stores(ra.node) if t.attr == 'accepted']
    r4.check(bool(un) and all(norm(s.value) == 'False' for s in un),
             ctx.construct(ra, extra='un-accept'),
             'selected executions are not un-accepted', ctx.loc(ra))
    from mstatic.rules import c07, shared
    c07.child_collections(ctx, r4)
    shared.affected_tasks_cover_completed(ctx, r4)
    sk = prog.func('mistral.engine.task_handler.skip_task')
    calls = [n for n in own_nodes(sk.node) if isinstance(n, ast.Call) and
             U.call_name(n) == 'complete']
    r4.check(bool(calls) and norm(calls[0].args[0]) == 'states.SKIPPED' and
             U.kwarg(calls[0], 'skip') is not None,
             ctx.construct(sk), 'skip does not complete the task with '
             'SKIPPED', ctx.loc(sk))
    pv = prog.func('mistral.workflow.data_flow.publish_variables')
    cfg = ctx.cfg(pv)
    IN, keys = sd.analyze(cfg, pv, [('task_ex.state', sd.state_domain)])
    gp = U.calls_in(cfg, 'get_publish')
    pvals = sd.values_at(IN, keys, gp[0][0], 'task_ex.state') if gp \
        else set()
    r4.check(bool(gp) and S['SKIPPED'] in pvals,
             ctx.construct(pv, extra='SKIPPED publishes'),
             'SKIPPED tasks do not publish (publish-on-skip is ignored)',
             ctx.loc(pv))
    r4.check({S['SUCCESS'], S['ERROR']} <= pvals,
             ctx.construct(pv, extra='SUCCESS and ERROR publish'),
             'tasks ending in %s do not publish'
             % sorted({S['SUCCESS'], S['ERROR']} - pvals), ctx.loc(pv))
    tg = prog.func('mistral.lang.v2.tasks.TaskSpec.get_publish')
    cfg = ctx.cfg(tg)
    IN, keys = sd.analyze(cfg, tg, [('state', sd.state_domain)],
                          kill=lambda c: ())
    ok = False
    for n, c in U.calls_in(cfg, 'PublishSpec'):
        if '_publish_on_skip' in norm(c, 300):
            ok = sd.values_at(IN, keys, n, 'state') == {S['SKIPPED']}
    r4.check(ok, ctx.construct(tg, extra='publish-on-skip'),
             'publish-on-skip is not selected exactly for SKIPPED',
             ctx.loc(tg))
