"""Mutants (must be reported) and behaviour-preserving variants (must stay
silent) used by the thorough tier.  Each entry edits one file of /repo in an
in-memory overlay: `old` must occur exactly `count` (default 1) times."""

E = 'mistral/engine/'
W = 'mistral/workflow/'
D = 'mistral/db/v2/sqlalchemy/'
A = 'mistral/api/controllers/v2/'


def m(mid, prop, rules, path, old, new, count=1):
    return {'id': mid, 'prop': prop, 'rules': rules, 'path': path,
            'old': old, 'new': new, 'count': count}


MUTANTS = [
    # ---------------------------------------------------------------- C01
    m('C01-drop-ptq-run-on-start-task', 'C01', ['R1'],
      E + 'default_engine.py',
      "    @post_tx_queue.run\n    def start_task(",
      "    def start_task("),
    m('C01-continue-task-no-handler', 'C01', ['R3'], E + 'task_handler.py',
      "            task.set_state(states.RUNNING, None)\n"
      "            task.run()\n    except exc.MistralException as e:",
      "            task.set_state(states.RUNNING, None)\n"
      "            task.run()\n    except KeyError as e:"),
    m('C01-skip-check-affected-in-complete-task', 'C01', ['R5'],
      E + 'task_handler.py',
      "        force_fail_task(task_ex, msg, task=task)\n\n        return\n\n"
      "    _check_affected_tasks(task)\n\n\n"
      "@profiler.trace('task-handler-check-affected-tasks'",
      "        force_fail_task(task_ex, msg, task=task)\n\n        return\n\n\n"
      "@profiler.trace('task-handler-check-affected-tasks'"),
    m('C01-completion-check-not-in-tx', 'C01', ['R5'], E + 'tasks.py',
      "post_tx_queue.register_operation(_check, in_tx=True)",
      "post_tx_queue.register_operation(_check)"),
    m('C01-on-error-also-for-success', 'C01', ['R7'],
      W + 'direct_workflow.py',
      "        if t_s == states.ERROR:\n            for name, cond, params in "
      "self.wf_spec.get_on_error_clause(t_n):",
      "        if t_s in (states.ERROR, states.SUCCESS):\n            for "
      "name, cond, params in self.wf_spec.get_on_error_clause(t_n):"),
    m('C01-unhandled-logical-state', 'C01', ['R6'], E + 'task_handler.py',
      "            elif state == states.ERROR:\n"
      "                complete_task(task_ex, state, state_info)\n",
      "            elif state == states.CANCELLED:\n"
      "                complete_task(task_ex, state, state_info)\n"),
    m('C01-job-arg-renamed', 'C01', ['R8'], E + 'task_handler.py',
      "        func_args={'task_ex_id': task_ex_id},\n"
      "        key=_get_refresh_state_job_key(task_ex_id)",
      "        func_args={'task_id': task_ex_id},\n"
      "        key=_get_refresh_state_job_key(task_ex_id)"),
    m('C01-possible-route-no-visited', 'C01', ['R10'],
      W + 'direct_workflow.py',
      "                if t_s.get_name() in visited:\n"
      "                    continue\n\n", ""),
    m('C01-decorator-order', 'C01', ['R2'], E + 'policies.py',
      "@db_utils.retry_on_db_error\n@post_tx_queue.run\n"
      "def _continue_task(task_ex_id):",
      "@post_tx_queue.run\n@db_utils.retry_on_db_error\n"
      "def _continue_task(task_ex_id):"),
    m('C01-evaluator-swallow', 'C01', ['R4'],
      'mistral/expressions/yaql_expression.py',
      "            raise exc.YaqlEvaluationException(\n"
      "                \"Can not evaluate YAQL expression [expression=%s, "
      "error=%s]\"\n                % (expression, str(e))\n            )",
      "            LOG.error(\n"
      "                \"Can not evaluate YAQL expression [expression=%s, "
      "error=%s]\"\n                % (expression, str(e))\n            )\n"
      "            result = None"),
    m('C01-undeclared-error-escapes', 'C01', ['R11'], E + 'dispatcher.py',
      "            raise exc.MistralError('Unsupported workflow command: %s' "
      "% cmd)",
      "            raise TypeError('Unsupported workflow command: %s' % cmd)"),
    # ---------------------------------------------------------------- C02
    m('C02-complete-ignores-cas', 'C02', ['R1'], E + 'tasks.py',
      "        if not self.set_state(state, state_info):\n            return\n"
      "\n        self._update_inbound_context()",
      "        self.set_state(state, state_info)\n"
      "\n        self._update_inbound_context()"),
    m('C02-unsorted-commands', 'C02', ['R2'], E + 'dispatcher.py',
      "    if state_cmd_idx < 0:\n        cmds.sort(key=functools.cmp_to_key("
      "_compare_task_commands))\n\n        return cmds",
      "    if state_cmd_idx < 0:\n        return cmds"),
    m('C02-merge-direction', 'C02', ['R5'], W + 'context_versioning.py',
      "                if r_ver > l_ver:", "                if r_ver < l_ver:"),
    m('C02-merge-always-overwrite', 'C02', ['R5'],
      W + 'context_versioning.py',
      "                if r_ver > l_ver:\n                    ctx_left[k] = v",
      "                ctx_left[k] = v"),
    m('C02-spec-mutating-getter', 'C02', ['R3'], 'mistral/lang/v2/tasks.py',
      "    def get_keep_result(self):\n        return self._keep_result",
      "    def get_keep_result(self):\n        self._keep_result = bool("
      "self._keep_result)\n        return self._keep_result"),
    m('C02-cache-primed-with-other-key', 'C02', ['R4'], E + 'workflows.py',
      "        spec_parser.cache_workflow_spec_by_execution_id(\n"
      "            self.wf_ex.id,\n            self.wf_spec\n        )",
      "        spec_parser.cache_workflow_spec_by_execution_id(\n"
      "            wf_def.id,\n            self.wf_spec\n        )"),
    # ---------------------------------------------------------------- C03
    m('C03-second-state-writer', 'C03', ['R1'], E + 'workflow_handler.py',
      "    wf = workflows.Workflow(wf_ex=wf_ex)\n\n    wf.pause(msg=msg)",
      "    wf = workflows.Workflow(wf_ex=wf_ex)\n\n    wf_ex.state = "
      "states.PAUSED\n\n    wf.pause(msg=msg)"),
    m('C03-cas-without-validation', 'C03', ['R2'], E + 'workflows.py',
      "        if states.is_valid_transition(cur_state, state):\n"
      "            wf_ex = db_api.update_workflow_execution_state(",
      "        if cur_state != state or True:\n"
      "            wf_ex = db_api.update_workflow_execution_state("),
    m('C03-cas-on-other-state', 'C03', ['R2'], E + 'workflows.py',
      "                cur_state=cur_state,\n                state=state\n"
      "            )\n\n            if wf_ex is None:",
      "                cur_state=states.RUNNING,\n                state=state\n"
      "            )\n\n            if wf_ex is None:"),
    m('C03-success-has-successor', 'C03', ['R3'], W + 'states.py',
      "    SUCCESS: [],", "    SUCCESS: [RUNNING],"),
    m('C03-resume-any-state', 'C03', ['R4'], E + 'workflow_handler.py',
      "    if not states.is_paused_or_idle(wf_ex.state):\n"
      "        return wf_ex.get_clone()\n", ""),
    m('C03-accept-result-twice', 'C03', ['R5'], E + 'actions.py',
      "        if states.is_completed(self.action_ex.state):\n"
      "            raise ValueError(\n"
      "                \"Action {} is already completed\".format("
      "self.action_ex.id)\n            )\n", ""),
    m('C03-duplicate-result-swallowed', 'C03', ['R5'], E + 'actions.py',
      "            raise ValueError(\n                \"Action {} is already "
      "completed\"",
      "            raise exc.MistralException(\n                \"Action {} "
      "is already completed\""),
    m('C03-complete-completed-task', 'C03', ['R6'], E + 'tasks.py',
      "        if self.is_completed() and not states.is_skipped(state):\n"
      "            return\n", ""),
    m('C03-run-existing-success', 'C03', ['R6'], E + 'tasks.py',
      "        if self.task_ex.state == states.SUCCESS:\n"
      "            raise exc.MistralError(\n"
      "                'Rerunning succeeded tasks is not supported.'\n"
      "            )\n", ""),
    m('C03-new-set-state-site', 'C03', ['R6'], E + 'task_handler.py',
      "    task = _build_task_from_command(wf_cmd)\n"
      "    task.complete(states.SKIPPED, \"Task was skipped.\", skip=True)",
      "    task = _build_task_from_command(wf_cmd)\n"
      "    task.set_state(states.RUNNING, None)\n"
      "    task.complete(states.SKIPPED, \"Task was skipped.\", skip=True)"),
    m('C03-succeed-finished-workflow', 'C03', ['R7'], E + 'workflows.py',
      "    def _succeed_workflow(self, final_context, msg=None):\n"
      "        if states.is_completed(self.wf_ex.state):\n"
      "            return\n\n",
      "    def _succeed_workflow(self, final_context, msg=None):\n"),
    m('C03-output-before-cas', 'C03', ['R7'], E + 'workflows.py',
      "        if not self.set_state(states.CANCELLED, state_info=msg):\n"
      "            return\n",
      "        self.wf_ex.output = {'result': msg}\n\n"
      "        if not self.set_state(states.CANCELLED, state_info=msg):\n"
      "            return\n"),
    # ---------------------------------------------------------------- C04
    m('C04-no-unique-constraint', 'C04', ['R1'], D + 'models.py',
      "        sa.Index('%s_updated_at' % __tablename__, 'updated_at'),\n"
      "        sa.UniqueConstraint('unique_key')\n    )\n\n"
      "    # Main properties.\n    spec = ",
      "        sa.Index('%s_updated_at' % __tablename__, 'updated_at'),\n"
      "    )\n\n    # Main properties.\n    spec = "),
    m('C04-join-not-waiting', 'C04', ['R2'], W + 'direct_workflow.py',
      "        cmd.unique_key = self._get_join_unique_key(cmd)\n"
      "        cmd.wait = True",
      "        cmd.unique_key = self._get_join_unique_key(cmd)"),
    m('C04-create-outside-lock', 'C04', ['R3'], E + 'tasks.py',
      "        with db_api.named_lock(self.unique_key):\n"
      "            if not self.task_ex:\n"
      "                t_execs = db_api.get_task_executions(",
      "        if True:\n"
      "            if not self.task_ex:\n"
      "                t_execs = db_api.get_task_executions("),
    m('C04-lookup-waiting-only', 'C04', ['R3'], E + 'tasks.py',
      "                t_execs = db_api.get_task_executions(\n"
      "                    workflow_execution_id=self.wf_ex.id,\n"
      "                    unique_key=self.unique_key\n                )",
      "                t_execs = db_api.get_task_executions(\n"
      "                    workflow_execution_id=self.wf_ex.id,\n"
      "                    unique_key=self.unique_key,\n"
      "                    state=states.WAITING\n                )"),
    m('C04-waiting-task-runs', 'C04', ['R4'], E + 'tasks.py',
      "    def _run_new(self):\n        if self.waiting:\n            return\n",
      "    def _run_new(self):\n"),
    m('C04-refresh-without-recheck', 'C04', ['R4'], E + 'task_handler.py',
      "            db_api.refresh(task_ex)\n\n"
      "            if (states.is_completed(task_ex.state)\n"
      "                    or task_ex.state == states.RUNNING):\n"
      "                return\n",
      "            db_api.refresh(task_ex)\n"),
    m('C04-refresh-without-lock', 'C04', ['R4'], E + 'task_handler.py',
      "        with db_api.named_lock(task_ex.id):\n            # NOTE: we "
      "have to use this lock",
      "        if True:\n            # NOTE: we have to use this lock"),
    m('C04-backlog-drops-wait', 'C04', ['R5'], W + 'commands.py',
      "        cmd.wait = cmd_dict.get('wait', False)\n", ""),
    m('C04-reverse-existing-task', 'C04', ['R6'], W + 'reverse_workflow.py',
      "        if self._get_task_executions(name=task_spec.get_name()):\n"
      "            return False\n", ""),
    m('C04-join-partial-off-by-one', 'C04', ['R10'], W + 'direct_workflow.py',
      "            if runnings_tuple[0] >= spec_cardinality:",
      "            if runnings_tuple[0] > spec_cardinality:"),
    m('C04-join-unreachable-off-by-one', 'C04', ['R10'],
      W + 'direct_workflow.py',
      "            if errors_tuple[0] > (total_count - spec_cardinality):",
      "            if errors_tuple[0] >= (total_count - spec_cardinality):"),
    m('C04-join-all-counts-errors', 'C04', ['R10'], W + 'direct_workflow.py',
      "            if total_count == runnings_tuple[0]:",
      "            if total_count == runnings_tuple[0] + errors_tuple[0]:"),
    m('C04-join-all-never-fails', 'C04', ['R10'], W + 'direct_workflow.py',
      "            if errors_tuple[0] > 0:\n"
      "                return base.TaskLogicalState(\n"
      "                    states.ERROR,",
      "            if errors_tuple[0] > total_count:\n"
      "                return base.TaskLogicalState(\n"
      "                    states.ERROR,"),
    m('C04-join-one-is-two', 'C04', ['R10'], W + 'direct_workflow.py',
      "            spec_cardinality = 1 if join_expr == 'one' else join_expr",
      "            spec_cardinality = 2 if join_expr == 'one' else join_expr"),
    m('C04-count-reads-depth', 'C04', ['R10'], W + 'direct_workflow.py',
      "                if s[2] == state:\n                    cnt += 1",
      "                if s[3] == state:\n                    cnt += 1"),
    m('C04-induced-unfinished-counts', 'C04', ['R10'],
      W + 'direct_workflow.py',
      "        if not states.is_completed(in_task_ex.state):\n"
      "            return states.WAITING, 1, None",
      "        if states.is_running(in_task_ex.state):\n"
      "            return states.WAITING, 1, None"),
    m('C04-induced-not-routed-waits', 'C04', ['R10'],
      W + 'direct_workflow.py',
      "            return states.ERROR, 1, \"not triggered\"",
      "            return states.WAITING, 1, \"not triggered\""),
    m('C04-route-paused-inbound-dead', 'C04', ['R10'],
      W + 'direct_workflow.py',
      "                if not states.is_completed(t_ex.state):\n"
      "                    return True, depth",
      "                if states.is_running(t_ex.state):\n"
      "                    return True, depth"),
    m('C04-route-first-inbound-decides', 'C04', ['R10'],
      W + 'direct_workflow.py',
      "                if t_name in [t[0] for t in t_ex.next_tasks]:\n"
      "                    return True, depth\n",
      "                if t_name in [t[0] for t in t_ex.next_tasks]:\n"
      "                    return True, depth\n\n"
      "                return False, depth\n"),
    m('C04-triggered-by-errors', 'C04', ['R10'], W + 'direct_workflow.py',
      "            if total_count == runnings_tuple[0]:\n"
      "                return base.TaskLogicalState(\n"
      "                    states.RUNNING,\n"
      "                    triggered_by=_triggered_by(states.RUNNING)",
      "            if total_count == runnings_tuple[0]:\n"
      "                return base.TaskLogicalState(\n"
      "                    states.RUNNING,\n"
      "                    triggered_by=_triggered_by(states.ERROR)"),
    m('C01-queue-started-for-empty-only', 'C01', ['R13'],
      E + 'post_tx_queue.py',
      "            if not queue:\n                return res\n",
      "            if queue:\n                return res\n"),
    m('C01-queue-run-on-failure-too', 'C01', ['R13'], E + 'post_tx_queue.py',
      "            t = threading.Thread(target=_within_new_thread)\n"
      "            t.start()\n        finally:\n            _clear()\n",
      "        finally:\n"
      "            threading.Thread(target=_within_new_thread).start()\n"
      "            _clear()\n"),
    m('C13-commit-even-when-body-failed', 'C13', ['R9'], D + 'api.py',
      "        try:\n            yield\n            if read_only:\n"
      "                rollback_tx()\n            else:\n"
      "                commit_tx()\n        finally:\n            end_tx()",
      "        try:\n            yield\n        finally:\n"
      "            if read_only:\n                rollback_tx()\n"
      "            else:\n                commit_tx()\n            end_tx()"),
    m('C01-in-tx-operation-outside-transaction', 'C01', ['R13'],
      E + 'post_tx_queue.py',
      "        if in_tx:\n            with db_api.transaction():",
      "        if not in_tx:\n            with db_api.transaction():"),
    m('C04-lock-row-not-flushed', 'C04', ['R11'], D + 'api.py',
      "    session.execute(insert.values(id=lock_id, name=name))\n\n"
      "    session.flush()\n\n    return lock_id",
      "    session.execute(insert.values(id=lock_id, name=name))\n\n"
      "    return lock_id"),
    m('C16-auth-skipped-for-v2-prefix', 'C16', ['R8'], 'mistral/context.py',
      "        if state.request.path in ALLOWED_WITHOUT_AUTH:",
      "        if state.request.path.startswith(tuple(ALLOWED_WITHOUT_AUTH)):"),
    m('C15-context-not-removed', 'C15', ['R8'], 'mistral/context.py',
      "    def after(self, state):\n        set_ctx(None)",
      "    def after(self, state):\n        pass"),
    m('C13-job-args-not-passed', 'C13', ['R10'],
      'mistral/scheduler/default_scheduler.py',
      "            func(**args)\n", "            func()\n"),
    m('C01-start-commands-for-resume', 'C01', ['R14'],
      W + 'direct_workflow.py',
      "        if not task_ex and not self.wf_ex.task_executions:",
      "        if not task_ex:"),
    m('C10-resume-ignores-failed-unprocessed', 'C10', ['R5'],
      W + 'direct_workflow.py',
      "                if states.is_completed(t_ex.state) and not "
      "t_ex.processed",
      "                if t_ex.state == states.SUCCESS and not "
      "t_ex.processed"),
    m('C09-resolution-global-first', 'C09', ['R7'], E + 'utils.py',
      "    if parent_wf_name != parent_wf_spec_name:",
      "    if parent_wf_name == parent_wf_spec_name:"),
    # ---------------------------------------------------------------- C05
    m('C05-evaluate-in-place', 'C05', ['R1'], 'mistral/expressions/__init__.py',
      "    data = copy.deepcopy(data)\n\n    if not context:",
      "    if not context:"),
    m('C05-contextview-mutable', 'C05', ['R1'], W + 'data_flow.py',
      "    def __setitem__(self, key, value):\n"
      "        self._raise_immutable_error()",
      "    def __setitem__(self, key, value):\n"
      "        self.dicts[0][key] = value"),
    m('C05-outbound-mutates-stored', 'C05', ['R2'],
      W + 'context_versioning.py',
      "    in_context = (copy.deepcopy(dict(in_context)))\n",
      ""),
    m('C05-new-context-writer', 'C05', ['R2'], E + 'tasks.py',
      "        return expr.evaluate_recursively(\n            data,\n"
      "            self.get_expression_context(ctx)\n        )",
      "        self.task_ex.in_context['__last'] = data\n\n"
      "        return expr.evaluate_recursively(\n            data,\n"
      "            self.get_expression_context(ctx)\n        )"),
    m('C05-published-on-losing-side', 'C05', ['R3'], W + 'data_flow.py',
      "        return utils.update_dict(in_context, getattr(task_ex, "
      "'published', {}))",
      "        return utils.update_dict(dict(getattr(task_ex, 'published', "
      "{})), in_context)"),
    m('C05-version-key-mismatch', 'C05', ['R4'], W + 'context_versioning.py',
      "            new_prefix = k if not prefix else prefix + \".\" + k",
      "            new_prefix = k if not prefix else prefix + \"/\" + k"),
    m('C05-view-order', 'C05', ['R5'], W + 'data_flow.py',
      "    ctx_view = ContextView(\n        ctx,\n"
      "        get_workflow_environment_dict(wf_ex),\n"
      "        wf_ex.context,\n        wf_ex.input\n    )\n\n"
      "    output = expr.evaluate_recursively(wf_output, ctx_view)",
      "    ctx_view = ContextView(\n        wf_ex.input,\n        ctx,\n"
      "        get_workflow_environment_dict(wf_ex),\n"
      "        wf_ex.context\n    )\n\n"
      "    output = expr.evaluate_recursively(wf_output, ctx_view)"),
    m('C05-triggered-by-dropped', 'C05', ['R6'], E + 'tasks.py',
      "        self.ctx = wf_ctrl.get_task_inbound_context(self.task_spec,\n"
      "                                                    triggered_by="
      "triggered_by)",
      "        self.ctx = wf_ctrl.get_task_inbound_context(self.task_spec)"),
    m('C05-merge-result-lost', 'C05', ['R7'], 'mistral/lang/v2/publish.py',
      "                self._branch = utils.merge_dicts(\n"
      "                    {} if self._branch is None else self._branch,\n"
      "                    spec_to_merge.get_branch()\n                )",
      "                utils.merge_dicts(self._branch, "
      "spec_to_merge.get_branch())"),
    # ---------------------------------------------------------------- C06
    m('C06-duplicate-start-not-handled', 'C06', ['R2'],
      E + 'default_engine.py',
      "        except exceptions.DBDuplicateEntryError:",
      "        except exceptions.DBEntityNotFoundError:"),
    m('C06-schedule-when-not-idle', 'C06', ['R3'], E + 'tasks.py',
      "        if states.is_idle(self.task_ex.state):\n            # Set the "
      "RUNNING state and trigger all operations",
      "        if not states.is_completed(self.task_ex.state):\n            "
      "# Set the RUNNING state and trigger all operations"),
    m('C06-redelivered-runs', 'C06', ['R4'],
      'mistral/executors/default_executor.py',
      "        if redelivered and not safe_rerun:",
      "        if redelivered and safe_rerun:"),
    m('C06-redelivered-not-forwarded', 'C06', ['R4'],
      'mistral/executors/executor_server.py',
      "        redelivered = rpc_ctx.redelivered or False",
      "        redelivered = False"),
    m('C06-rpc-kwarg-renamed', 'C06', ['R5'], 'mistral/rpc/clients.py',
      "            'stop_workflow',\n            wf_ex_id=wf_ex_id,",
      "            'stop_workflow',\n            execution_id=wf_ex_id,"),
    m('C06-rpc-method-missing', 'C06', ['R5'], 'mistral/rpc/clients.py',
      "            'pause_workflow',\n", "            'suspend_workflow',\n"),
    m('C06-two-results', 'C06', ['R4'],
      'mistral/executors/default_executor.py',
      "        # Send action result.\n        try:\n",
      "        # Send action result.\n        if action_ex_id:\n"
      "            self._engine_client.on_action_complete(action_ex_id, "
      "result)\n\n        try:\n"),
    # ---------------------------------------------------------------- C07
    m('C07-no-refresh', 'C07', ['R1'], E + 'tasks.py',
      "            db_api.refresh(self.task_ex)\n\n"
      "            if self.is_completed():\n                return\n\n"
      "            self._increase_capacity()",
      "            if self.is_completed():\n                return\n\n"
      "            self._increase_capacity()"),
    m('C07-inline-for-with-items', 'C07', ['R2'], E + 'task_handler.py',
      "    if not action_ex.task_execution.spec.get('with-items'):\n"
      "        _on_action_complete(action_ex)\n\n        return\n",
      "    if True:\n        _on_action_complete(action_ex)\n\n"
      "        return\n"),
    m('C07-job-key-per-action', 'C07', ['R2'], E + 'task_handler.py',
      "        key='th_on_a_c-%s' % action_ex.task_execution_id",
      "        key='th_on_a_c-%s' % action_ex.id"),
    m('C07-no-capacity-taken', 'C07', ['R3'], E + 'tasks.py',
      "                self._decrease_capacity(1)\n", ""),
    m('C07-capacity-unbounded', 'C07', ['R3'], E + 'tasks.py',
      "        if concurrency and ctx[self._CAPACITY] < concurrency:",
      "        if concurrency:"),
    m('C07-results-unsorted', 'C07', ['R4'], W + 'data_flow.py',
      "    execs.sort(key=lambda x: x.runtime_context.get('index'))\n", ""),
    m('C07-results-unaccepted', 'C07', ['R4'], W + 'data_flow.py',
      "        if hasattr(ex, 'output') and ex.accepted",
      "        if hasattr(ex, 'output')"),
    m('C07-error-before-cancel', 'C07', ['R5'], E + 'tasks.py',
      "        if list(filter(find_cancelled, self.task_ex.executions)):\n"
      "            return states.CANCELLED\n"
      "        elif list(filter(find_error, self.task_ex.executions)):\n"
      "            return states.ERROR",
      "        if list(filter(find_error, self.task_ex.executions)):\n"
      "            return states.ERROR\n"
      "        elif list(filter(find_cancelled, self.task_ex.executions)):\n"
      "            return states.CANCELLED"),
    m('C07-complete-without-capacity', 'C07', ['R5'], E + 'tasks.py',
      "        return count == len(execs) and full_capacity",
      "        return count == len(execs)"),
    m('C07-complete-when-not-done', 'C07', ['R8'], E + 'tasks.py',
      "            if self.is_with_items_completed():\n"
      "                state = self._get_final_state()",
      "            if not self.is_with_items_completed():\n"
      "                state = self._get_final_state()"),
    m('C07-final-state-negated', 'C07', ['R5'], E + 'tasks.py',
      "        elif list(filter(find_error, self.task_ex.executions)):\n"
      "            return states.ERROR",
      "        elif not list(filter(find_error, self.task_ex.executions)):\n"
      "            return states.ERROR"),
    m('C07-early-complete-any-error', 'C07', ['R5'], E + 'tasks.py',
      "        find_cancelled = lambda x: x.accepted and x.state == "
      "states.CANCELLED\n\n"
      "        if list(filter(find_cancelled, self.task_ex.executions)):\n"
      "            return True",
      "        find_cancelled = lambda x: x.accepted and x.state == "
      "states.ERROR\n\n"
      "        if list(filter(find_cancelled, self.task_ex.executions)):\n"
      "            return True"),
    m('C07-capacity-not-written-back', 'C07', ['R3'], E + 'tasks.py',
      "            ctx[self._CAPACITY] += 1\n\n"
      "            self.task_ex.runtime_context.update({self._WITH_ITEMS: "
      "ctx})",
      "            ctx[self._CAPACITY] += 1"),
    m('C07-schedule-without-limit', 'C07', ['R8'], E + 'tasks.py',
      "            if self._has_more_iterations() and "
      "self._get_concurrency():",
      "            if self._has_more_iterations():"),
    m('C07-context-not-prepared', 'C07', ['R8'], E + 'tasks.py',
      "        if self._is_new():\n"
      "            action_count = len(next(iter(with_items_values.values())))",
      "        if not self._is_new():\n"
      "            action_count = len(next(iter(with_items_values.values())))"),
    m('C07-start-index-with-candidates', 'C07', ['R8'], E + 'tasks.py',
      "        if candidates:\n            indices = copy.copy(candidates)",
      "        if not candidates:\n            indices = "
      "copy.copy(candidates)"),
    m('C07-single-item-unwrapped', 'C07', ['R8'], W + 'data_flow.py',
      "    if spec_parser.get_task_spec(task_ex.spec).get_with_items():\n"
      "        return results\n",
      "    if not spec_parser.get_task_spec(task_ex.spec).get_with_items():"
      "\n        return results\n"),
    m('C07-input-index-lost', 'C07', ['R8'], E + 'tasks.py',
      "            result.append((i, self._get_action_input(ctx)))",
      "            result.append((0, self._get_action_input(ctx)))"),
    m('C04-join-unique-key-not-passed', 'C04', ['RA'], E + 'task_handler.py',
      "            cmd.ctx,\n            unique_key=cmd.unique_key,\n"
      "            waiting=cmd.is_waiting(),",
      "            cmd.ctx,\n            waiting=cmd.is_waiting(),"),
    m('C12-rerun-reset-not-forwarded', 'C12', ['RA'],
      E + 'workflow_handler.py',
      "    wf.rerun(task, reset=reset, skip=skip, env=env)",
      "    wf.rerun(task, skip=skip, env=env)"),
    m('C05-triggered-by-lost-over-rpc', 'C05', ['RA'], E + 'task_handler.py',
      "        waiting=waiting == states.WAITING,\n"
      "        triggered_by=triggered_by,\n",
      "        waiting=waiting == states.WAITING,\n"),
    m('C13-legacy-job-key-dropped', 'C13', ['RA'],
      'mistral/services/legacy_scheduler.py',
      "            key=job.key,\n", ""),
    m('C07-tail-reruns-started-items', 'C07', ['R8'], E + 'tasks.py',
      "                indices += [\n"
      "                    i for i in range(max(candidates) + 1, count)\n"
      "                    if i not in started\n                ]",
      "                indices += list(range(max(candidates) + 1, count))"),
    m('C07-tail-skips-accepted-only', 'C07', ['R8'], E + 'tasks.py',
      "                started = set(_get_indexes(self.task_ex.executions))",
      "                started = set(accepted)"),
    # ---------------------------------------------------------------- C08
    m('C08-retry-off-by-one', 'C08', ['R1'], E + 'policies.py',
      "        retries_remain = retry_no < self.count",
      "        retries_remain = retry_no <= self.count"),
    m('C08-retry-ignores-break', 'C08', ['R1'], E + 'policies.py',
      "        if not retries_remain or break_triggered or "
      "stop_continue_flag:",
      "        if not retries_remain or stop_continue_flag:"),
    m('C08-retry-no-increment', 'C08', ['R1'], E + 'policies.py',
      "        policy_ctx['retry_no'] = retry_no + 1",
      "        policy_ctx['retry_no'] = retry_no"),
    m('C08-timeout-fails-completed', 'C08', ['R2'], E + 'policies.py',
      "        if not states.is_completed(task_ex.state):\n"
      "            msg = 'Task timed out [timeout(s)=%s].' % timeout\n\n"
      "            task_handler.complete_task(task_ex, states.ERROR, msg)",
      "        if True:\n"
      "            msg = 'Task timed out [timeout(s)=%s].' % timeout\n\n"
      "            task_handler.complete_task(task_ex, states.ERROR, msg)"),
    m('C08-schedule-before-hooks', 'C08', ['R3'], E + 'tasks.py',
      "            self._before_task_start()\n\n"
      "            # Policies could possibly change task state.\n"
      "            if self.task_ex.state != states.RUNNING:\n"
      "                return\n\n            self._schedule_actions()\n\n"
      "    @profiler.trace('task-create-new')",
      "            self._before_task_start()\n\n"
      "            self._schedule_actions()\n\n"
      "    @profiler.trace('task-create-new')"),
    m('C08-fail-on-any-state', 'C08', ['R3'], E + 'policies.py',
      "        if task.get_state() != states.SUCCESS:\n            return\n\n"
      "        if self.fail_on:", "        if self.fail_on:"),
    m('C08-policy-key-dropped', 'C08', ['R4'], 'mistral/lang/v2/tasks.py',
      "            'pause-before',\n            'concurrency',\n"
      "            'fail-on'\n        )\n        self._target",
      "            'pause-before',\n            'concurrency'\n        )\n"
      "        self._target"),
    m('C08-wrong-delay', 'C08', ['R5'], E + 'policies.py',
      "            run_after=self.delay,\n"
      "            func_name=_COMPLETE_TASK_PATH,",
      "            run_after=0,\n            func_name=_COMPLETE_TASK_PATH,"),
    m('C08-hook-without-super', 'C08', ['R5'], E + 'policies.py',
      "        super(TimeoutPolicy, self).before_task_start(task)\n\n", ""),
    # ---------------------------------------------------------------- C09
    m('C09-handoff-before-cas', 'C09', ['R1'], E + 'workflows.py',
      "        if not self.set_state(states.ERROR, state_info=msg):\n"
      "            return\n",
      "        if self.wf_ex.task_execution_id:\n"
      "            self._send_result_to_parent_workflow()\n\n"
      "        if not self.set_state(states.ERROR, state_info=msg):\n"
      "            return\n"),
    m('C09-no-handoff-on-cancel', 'C09', ['R1'], E + 'workflows.py',
      "        self.wf_ex.output = {'result': msg}\n\n"
      "        if self.wf_ex.task_execution_id:\n"
      "            self._send_result_to_parent_workflow()",
      "        self.wf_ex.output = {'result': msg}"),
    m('C09-handoff-in-tx', 'C09', ['R1'], E + 'workflows.py',
      "        post_tx_queue.register_operation(_send_result)",
      "        post_tx_queue.register_operation(_send_result, in_tx=True)"),
    m('C09-result-not-rebuilt', 'C09', ['R2'], E + 'default_engine.py',
      "                if result is None:\n"
      "                    result = ml_actions.Result(data=action_ex.output)\n",
      ""),
    m('C09-root-id-is-parent', 'C09', ['R3'], E + 'actions.py',
      "        root_execution_id = parent_wf_ex.root_execution_id or "
      "parent_wf_ex.id",
      "        root_execution_id = parent_wf_ex.id"),
    m('C09-undeclared-input-dropped', 'C09', ['R3'], E + 'actions.py',
      "                wf_params[k] = v\n                del input_dict[k]",
      "                del input_dict[k]"),
    m('C09-own-env', 'C09', ['R4'], W + 'data_flow.py',
      "    if wf_ex.root_execution_id:\n"
      "        return get_workflow_environment_dict(wf_ex.root_execution)\n",
      ""),
    # ---------------------------------------------------------------- C10
    m('C10-create-while-paused', 'C10', ['R1'], E + 'dispatcher.py',
      "        if wf_ex.state == states.PAUSED:\n"
      "            # Save all commands after 'pause' to the backlog so that\n"
      "            # they can be processed after the workflow is resumed.\n"
      "            _save_command_to_backlog(wf_ex, cmd)\n\n"
      "            continue\n", ""),
    m('C10-second-creator', 'C10', ['R1'], E + 'task_handler.py',
      "    task = _build_task_after_rpc(wf_spec, task_ex, waiting, "
      "triggered_by,\n                                 rerun, reset)\n",
      "    task = _build_task_after_rpc(wf_spec, task_ex, waiting, "
      "triggered_by,\n                                 rerun, reset)\n"
      "    if not task.task_ex:\n        task.create_new()\n"),
    m('C10-dispatch-while-paused', 'C10', ['R2'], E + 'tasks.py',
      "        if states.is_paused(self.wf_ex.state):\n            return\n\n"
      "        # Mark task as processed after all decisions have been made",
      "        # Mark task as processed after all decisions have been made"),
    m('C10-resume-skips-continue', 'C10', ['R3'], E + 'workflows.py',
      "        cmds = wf_ctrl.continue_workflow()\n\n"
      "        self._continue_workflow(cmds)\n\n"
      "        # Import the task_handler module here",
      "        cmds = wf_ctrl.continue_workflow()\n\n"
      "        if cmds:\n            self._continue_workflow(cmds)\n\n"
      "        # Import the task_handler module here"),
    m('C10-backlog-after-new', 'C10', ['R3'], E + 'dispatcher.py',
      "    # Run commands from the backlog.\n"
      "    _process_commands(wf_ex, _poll_commands_from_backlog(wf_ex))\n\n"
      "    # Run new commands.\n    _process_commands(wf_ex, wf_cmds)",
      "    # Run new commands.\n    _process_commands(wf_ex, wf_cmds)\n\n"
      "    # Run commands from the backlog.\n"
      "    _process_commands(wf_ex, _poll_commands_from_backlog(wf_ex))"),
    m('C10-backlog-drops-unique-key', 'C10', ['R4'], W + 'commands.py',
      "        cmd.unique_key = cmd_dict.get('unique_key')\n", ""),
    m('C10-join-starts-while-paused', 'C10', ['R6'], E + 'task_handler.py',
      "        if states.is_paused_or_completed(wf_ex.state):\n"
      "            return\n\n        wf_spec = spec_parser."
      "get_workflow_spec_by_execution_id(\n"
      "            task_ex.workflow_execution_id\n        )\n\n"
      "        wf_ctrl = wf_base.get_controller(wf_ex, wf_spec)\n\n"
      "        with db_api.named_lock(task_ex.id):",
      "        if states.is_completed(wf_ex.state):\n"
      "            return\n\n        wf_spec = spec_parser."
      "get_workflow_spec_by_execution_id(\n"
      "            task_ex.workflow_execution_id\n        )\n\n"
      "        wf_ctrl = wf_base.get_controller(wf_ex, wf_spec)\n\n"
      "        with db_api.named_lock(task_ex.id):"),
    m('C10-resume-does-not-recheck-joins', 'C10', ['R6'], E + 'workflows.py',
      "        for t_ex in waiting_task_execs:\n"
      "            task_handler._schedule_refresh_task_state(t_ex.id)\n",
      "        for t_ex in waiting_task_execs:\n"
      "            pass\n"),
    m('C10-resume-rechecks-before-dispatch', 'C10', ['R6'],
      E + 'workflows.py',
      "        self._continue_workflow(cmds)\n\n"
      "        # Import the task_handler module here to avoid circular "
      "reference.\n"
      "        from mistral.engine import task_handler\n",
      "        # Import the task_handler module here to avoid circular "
      "reference.\n"
      "        from mistral.engine import task_handler\n"),
    # ---------------------------------------------------------------- C11
    m('C11-dispatch-after-stop', 'C11', ['R1'], E + 'dispatcher.py',
      "        if states.is_completed(wf_ex.state):\n            break\n\n", ""),
    m('C11-refresh-after-stop', 'C11', ['R1'], E + 'task_handler.py',
      "        if states.is_paused_or_completed(wf_ex.state):\n"
      "            return\n\n        wf_spec = spec_parser.",
      "        if states.is_paused(wf_ex.state):\n"
      "            return\n\n        wf_spec = spec_parser."),
    m('C11-cancel-not-recursive', 'C11', ['R2'], E + 'workflow_handler.py',
      "    # Cancels subworkflows.\n    if state == states.CANCELLED:",
      "    # Cancels subworkflows.\n    if state == states.ERROR:"),
    m('C11-stop-finished-subworkflows', 'C11', ['R2'],
      E + 'workflow_handler.py',
      "                if not states.is_completed(sub_wf_ex.state):\n"
      "                    stop_workflow(sub_wf_ex, state, msg=msg)",
      "                stop_workflow(sub_wf_ex, state, msg=msg)"),
    m('C11-stop-wrong-setter', 'C11', ['R2'], E + 'workflows.py',
      "        elif state == states.ERROR:\n"
      "            self._fail_workflow(self._get_final_context(), msg)",
      "        elif state == states.ERROR:\n"
      "            self._cancel_workflow(msg)"),
    m('C11-cancel-after-errors', 'C11', ['R3'], E + 'workflows.py',
      "        if wf_ctrl.any_cancels():\n"
      "            msg = _build_cancel_info_message(wf_ctrl, self.wf_ex)\n\n"
      "            self._cancel_workflow(msg)\n"
      "        elif wf_ctrl.all_errors_handled():",
      "        if wf_ctrl.all_errors_handled() and not "
      "wf_ctrl.any_cancels():"),
    m('C11-fail-ignores-paused', 'C11', ['R5'], E + 'workflows.py',
      "    def _fail_workflow(self, final_context, msg):\n"
      "        if states.is_completed(self.wf_ex.state):",
      "    def _fail_workflow(self, final_context, msg):\n"
      "        if states.is_paused_or_completed(self.wf_ex.state):"),
    # ---------------------------------------------------------------- C12
    m('C12-rerun-any-task-state', 'C12', ['R1'], A + 'task.py',
      "        if task_ex.state != states.ERROR:\n"
      "            raise exc.WorkflowException(\n"
      "                'The current task execution must be in ERROR for "
      "rerun.'\n"
      "                ' Only updating task to rerun is supported.'\n"
      "            )\n", ""),
    m('C12-skip-flag-inverted', 'C12', ['R1'], A + 'task.py',
      "            skip=(task.state == states.SKIPPED),",
      "            skip=(task.state != states.SKIPPED),"),
    m('C12-rerun-paused', 'C12', ['R2'], E + 'workflow_handler.py',
      "    if wf_ex.state == states.PAUSED:\n"
      "        return wf_ex.get_clone()\n\n    # To break cyclic dependency.",
      "    # To break cyclic dependency."),
    m('C12-commands-before-rerun', 'C12', ['R3'], E + 'workflows.py',
      "        self._recursive_rerun()\n\n"
      "        wf_ctrl = wf_base.get_controller(self.wf_ex)\n\n"
      "        # Calculate commands to process next.\n        if skip:",
      "        wf_ctrl = wf_base.get_controller(self.wf_ex)\n\n"
      "        # Calculate commands to process next.\n        if skip:"),
    m('C12-reset-all-without-flag', 'C12', ['R4'], E + 'tasks.py',
      "            execs = [e for e in self.task_ex.executions if\n"
      "                     (e.accepted and\n"
      "                      e.state in [states.ERROR, states.CANCELLED])]",
      "            execs = [e for e in self.task_ex.executions if "
      "e.accepted]"),
    # ---------------------------------------------------------------- C13
    m('C13-capture-unconditional', 'C13', ['R1'],
      'mistral/scheduler/default_scheduler.py',
      "            query_filter={'captured_at': scheduled_job.captured_at}",
      "            query_filter=None"),
    m('C13-capture-result-ignored', 'C13', ['R2'],
      'mistral/scheduler/default_scheduler.py',
      "            if not self._capture_scheduled_job(scheduled_job):\n"
      "                LOG.warning(\n"
      "                    \"Unable to capture a scheduled job [id=%s]\",\n"
      "                    scheduled_job.id\n                )\n\n"
      "                return\n",
      "            self._capture_scheduled_job(scheduled_job)\n"),
    m('C13-run-early', 'C13', ['R3'],
      'mistral/scheduler/default_scheduler.py',
      "                if delay > 0:\n"
      "                    self._cond.wait(timeout=delay)\n\n"
      "                    continue\n", ""),
    m('C13-no-recapture', 'C13', ['R4'], D + 'api.py',
      "        sa.or_(\n            captured_at_col == sa.null(),\n"
      "            captured_at_col <= min_captured_at\n        )",
      "        captured_at_col == sa.null()"),
    m('C13-schedule-commits', 'C13', ['R5'],
      'mistral/scheduler/default_scheduler.py',
      "    def schedule(self, job):\n"
      "        scheduled_job = self._persist_job(job)\n",
      "    def schedule(self, job):\n        with db_api.transaction():\n"
      "            scheduled_job = self._persist_job(job)\n"),
    m('C13-job-path-typo', 'C13', ['R6'], E + 'policies.py',
      "_COMPLETE_TASK_PATH = 'mistral.engine.policies._complete_task'",
      "_COMPLETE_TASK_PATH = 'mistral.engine.policies._complete_tsk'"),
    m('C13-unlocked-heap-access', 'C13', ['R8'],
      'mistral/scheduler/default_scheduler.py',
      "        with self._cond:\n"
      "            in_memory_jobs = list(self.in_memory_jobs.values())",
      "        in_memory_jobs = list(self.in_memory_jobs.values())"),
    # ---------------------------------------------------------------- C14
    m('C14-plain-yaml-load', 'C14', ['R1'], 'mistral/services/workflows.py',
      "from mistral.utils import safe_yaml",
      "import yaml as safe_yaml"),
    m('C14-lang-raises-valueerror', 'C14', ['R2'], 'mistral/lang/base.py',
      "            msg = \"Invalid action/workflow task property: %s\" % "
      "cmd_str\n\n            raise exc.InvalidModelException(msg)",
      "            msg = \"Invalid action/workflow task property: %s\" % "
      "cmd_str\n\n            raise ValueError(msg)"),
    m('C14-yaml-error-escapes', 'C14', ['R3'], 'mistral/lang/parser.py',
      "    except error.YAMLError as e:", "    except KeyError as e:"),
    m('C14-scalar-document', 'C14', ['R6'], 'mistral/lang/parser.py',
      "    if not isinstance(data, dict):\n"
      "        raise exc.DSLParsingException(\n"
      "            \"Definition must be a YAML mapping, got '%s' instead.\" "
      "%\n            type(data).__name__\n        )\n\n", ""),
    m('C14-typeerror-escapes', 'C14', ['R7'], 'mistral/lang/base.py',
      "        except TypeError as e:\n            # YAML allows",
      "        except AttributeError as e:\n            # YAML allows"),
    m('C14-to-dict-copy-with-extra', 'C14', ['R4'], 'mistral/lang/base.py',
      "    def to_dict(self):\n        return self._data",
      "    def to_dict(self):\n        return dict(self._data, "
      "_cls=type(self).__name__)"),
    m('C14-spec-reads-before-validate', 'C14', ['R3'],
      'mistral/lang/v2/workflows.py',
      "        super(WorkflowSpec, self).__init__(data, validate)\n\n"
      "        self._name = data['name']",
      "        self._name = data['name']\n\n"
      "        super(WorkflowSpec, self).__init__(data, validate)"),
    m('C14-helper-raises-keyerror', 'C14', ['R8'],
      'mistral/expressions/__init__.py',
      "                raise exc.ExpressionGrammarException(\n"
      "                    \"The line already contains an expression of type "
      "'%s'. \"",
      "                raise KeyError(\n"
      "                    \"The line already contains an expression of type "
      "'%s'. \""),
    # ---------------------------------------------------------------- C15
    m('C15-secure-query-drops-project', 'C15', ['R1'], D + 'api.py',
      "    query_criterion = sa.or_(\n"
      "        model.project_id == security.get_project_id(),\n"
      "        model.scope == 'public'\n    )",
      "    query_criterion = sa.or_(\n"
      "        model.project_id != None,\n"
      "        model.scope == 'public'\n    )"),
    m('C15-raw-query-in-getter', 'C15', ['R1'], D + 'api.py',
      "def _get_db_object_by_name(model, name, columns=()):\n"
      "    query = _secure_query(model, *columns)",
      "def _get_db_object_by_name(model, name, columns=()):\n"
      "    query = b.model_query(model, columns)"),
    m('C15-insecure-from-expression-fn', 'C15', ['R2'],
      'mistral/expressions/std_functions.py',
      "    return db_api.get_workflow_executions(**filter_)",
      "    return db_api.get_workflow_executions(insecure=True, **filter_)"),
    m('C15-update-without-owner-check', 'C15', ['R3'], D + 'api.py',
      "    env = get_environment(name)\n\n    _check_modify_access(env)\n\n"
      "    env.update(values)",
      "    env = get_environment(name)\n\n    env.update(values)"),
    m('C15-share-without-owner-check', 'C15', ['R3'], A + 'member.py',
      "                db_utils.check_db_obj_access(wf_db)\n", ""),
    m('C15-listener-keeps-value', 'C15', ['R4'],
      'mistral/db/sqlalchemy/model_base.py',
      "def _set_project_id(target, value, oldvalue, initiator):\n"
      "    return security.get_project_id()",
      "def _set_project_id(target, value, oldvalue, initiator):\n"
      "    return value or security.get_project_id()"),
    m('C15-all-projects-unguarded', 'C15', ['R5'], A + 'workflow.py',
      "        if all_projects:\n"
      "            acl.enforce('workflows:list:all_projects', "
      "context.ctx())\n", ""),
    m('C15-member-update-by-owner', 'C15', ['R6'], D + 'api.py',
      "    if member_id != security.get_project_id():\n"
      "        raise exc.DBEntityNotFoundError(\n"
      "            \"Resource member not found [resource_id=%s, "
      "member_id=%s]\" %\n            (resource_id, member_id)\n        )\n\n"
      "    query = _secure_query(models.ResourceMember).filter_by(\n"
      "        resource_type=res_type\n    )\n\n    res_member = query.filter(",
      "    query = _secure_query(models.ResourceMember).filter_by(\n"
      "        resource_type=res_type\n    )\n\n    res_member = query.filter("),
    # ---------------------------------------------------------------- C16
    m('C16-effect-before-enforce', 'C16', ['R1'], A + 'environment.py',
      "        acl.enforce('environments:delete', context.ctx())\n\n"
      "        LOG.debug(\"Delete environment [name=%s]\", name)\n",
      "        LOG.debug(\"Delete environment [name=%s]\", name)\n"),
    m('C16-wrong-rule-verb', 'C16', ['R2'], A + 'environment.py',
      "        acl.enforce('environments:delete', context.ctx())",
      "        acl.enforce('environments:get', context.ctx())"),
    m('C16-unregistered-rule', 'C16', ['R2'], A + 'workbook.py',
      "        acl.enforce('workbooks:delete', context.ctx())",
      "        acl.enforce('workbooks:remove', context.ctx())"),
    m('C16-all-projects-rule-not-admin', 'C16', ['R3'],
      'mistral/policies/workflow.py',
      "        name=WORKFLOWS % 'list:all_projects',\n"
      "        check_str=base.RULE_ADMIN_ONLY,",
      "        name=WORKFLOWS % 'list:all_projects',\n"
      "        check_str=base.RULE_ADMIN_OR_OWNER,"),
    m('C16-publicize-after-effect', 'C16', ['R4'], A + 'environment.py',
      "        if env.scope == 'public':\n"
      "            acl.enforce('environments:publicize', context.ctx())\n\n"
      "        db_model = rest_utils.rest_retry_on_db_error(\n"
      "            db_api.create_environment",
      "        db_model = rest_utils.rest_retry_on_db_error(\n"
      "            db_api.create_environment"),
    m('C16-pecan-without-wrapper', 'C16', ['R5'], A + 'workbook.py',
      "    @rest_utils.wrap_pecan_controller_exception\n"
      "    @pecan.expose(content_type=\"text/plain\")\n    def post(self",
      "    @pecan.expose(content_type=\"text/plain\")\n    def post(self"),
    m('C16-delete-unfinished', 'C16', ['R6'], A + 'execution.py',
      "            if not states.is_completed(state):\n"
      "                raise exc.NotAllowedException(",
      "            if states.is_idle(state):\n"
      "                raise exc.NotAllowedException("),
    m('C16-description-with-state', 'C16', ['R6'], A + 'execution.py',
      "                if delta.get('description') and delta.get('state'):\n"
      "                    raise exc.InputException(\n"
      "                        'The property description must be updated '\n"
      "                        'separately from state.'\n"
      "                    )\n", ""),
    m('C16-admin-by-prefix', 'C16', ['R7'], 'mistral/context.py',
      "        context.is_admin = True if 'admin' in context.roles else False",
      "        context.is_admin = any(r.startswith('admin') for r in "
      "context.roles)"),
    # ---------------------------------------------------------------- C17
    m('C17-start-regardless', 'C17', ['R1'], 'mistral/services/periodic.py',
      "            if modified:\n                # Setup admin context",
      "            if True:\n                # Setup admin context"),
    m('C17-update-unconditional', 'C17', ['R2'],
      'mistral/services/periodic.py',
      "                query_filter={\n"
      "                    'next_execution_time': t.next_execution_time\n"
      "                }", "                query_filter=None"),
    m('C17-by-name', 'C17', ['R2'], 'mistral/services/periodic.py',
      "            updated, modified_count = db_api_v2.update_cron_trigger(\n"
      "                t.id,",
      "            updated, modified_count = db_api_v2.update_cron_trigger(\n"
      "                t.name,"),
    m('C17-next-from-previous-only', 'C17', ['R3'],
      'mistral/services/periodic.py',
      "                max(timeutils.utcnow(), t.next_execution_time)",
      "                t.next_execution_time"),
    m('C17-never-deleted', 'C17', ['R3'], 'mistral/services/periodic.py',
      "        if t.remaining_executions == 0:",
      "        if t.remaining_executions is not None and "
      "t.remaining_executions < 0:"),
    m('C17-no-validation', 'C17', ['R4'], 'mistral/services/triggers.py',
      "    validate_cron_trigger_input(pattern, first_time, count)\n\n"
      "    if first_time:\n        next_time = first_time",
      "    if first_time:\n        next_time = first_time"),
    # ---------------------------------------------------------------- C18
    m('C18-sub-executions-deleted', 'C18', ['R1'], D + 'api.py',
      "    query = query.filter(\n"
      "        models.WorkflowExecution.task_execution_id == sa.null()\n"
      "    )\n\n", ""),
    m('C18-oldest-kept', 'C18', ['R1'], D + 'api.py',
      "    query = query.order_by(models.WorkflowExecution.updated_at.desc())",
      "    query = query.order_by(models.WorkflowExecution.updated_at.asc())"),
    m('C18-no-offset', 'C18', ['R1'], D + 'api.py',
      "    query = query.offset(max_finished_executions)\n", ""),
    m('C18-loop-never-ends', 'C18', ['R2'],
      'mistral/services/expiration_policy.py',
      "            if not execs:\n                break\n", ""),
    m('C18-no-cascade', 'C18', ['R3'], D + 'models.py',
      "    sa.ForeignKey(WorkflowExecution.id, ondelete='CASCADE')\n)",
      "    sa.ForeignKey(WorkflowExecution.id)\n)"),
    m('C18-age-criterion-always', 'C18', ['R4'],
      'mistral/services/expiration_policy.py',
      "    if older_than and older_than >= 1:\n        exp_time = (",
      "    if True:\n        exp_time = ("),
    # ---------------------------------------------------------------- C19
    m('C19-no-validate-webhook', 'C19', ['R1'],
      'mistral/notifiers/publishers/webhook.py',
      "        egress.validate_url(url)\n", ""),
    m('C19-validate-other-url', 'C19', ['R1'],
      'mistral/actions/std_actions.py',
      "        egress.validate_url(self.url)",
      "        egress.validate_url(self.url.lower())"),
    m('C19-scheme-ftp', 'C19', ['R2'], 'mistral/utils/egress.py',
      "    if parsed.scheme not in ('http', 'https'):",
      "    if parsed.scheme not in ('http', 'https', 'ftp'):"),
    m('C19-first-address-only', 'C19', ['R2'], 'mistral/utils/egress.py',
      "                raise exc.UrlNotAllowedException(\n"
      "                    \"URL host '%s' resolves to a blocked address "
      "(%s).\"\n                    % (host, address)\n                )",
      "                raise exc.UrlNotAllowedException(\n"
      "                    \"URL host '%s' resolves to a blocked address "
      "(%s).\"\n                    % (host, address)\n                )\n\n"
      "        break"),
    m('C19-mapped-not-unwrapped', 'C19', ['R3'], 'mistral/utils/egress.py',
      "        if getattr(address, 'ipv4_mapped', None) is not None:\n"
      "            address = address.ipv4_mapped\n", ""),
    m('C19-default-without-metadata', 'C19', ['R4'], 'mistral/config.py',
      "default=['127.0.0.0/8', '::1/128', '169.254.0.0/16', 'fe80::/10'],",
      "default=['127.0.0.0/8', '::1/128', 'fe80::/10'],"),
    # ---------------------------------------------------------------- C20
    m('C20-expire-async', 'C20', ['R1'], D + 'api.py',
      "    query = query.filter_by(is_sync=True)\n", ""),
    m('C20-expire-finished', 'C20', ['R1'], D + 'api.py',
      "    query = query.filter(models.ActionExecution.state == "
      "states.RUNNING)\n\n    if limit:\n        query.limit(limit)",
      "    if limit:\n        query.limit(limit)"),
    m('C20-batch-poisoned', 'C20', ['R2'],
      'mistral/services/action_heartbeat_checker.py',
      "                        action_ex.id, e\n                    )\n\n"
      "                    continue",
      "                        action_ex.id, e\n                    )\n\n"
      "                    raise"),
    m('C20-standalone-skipped', 'C20', ['R2'],
      'mistral/services/action_heartbeat_checker.py',
      "                    if action_ex.task_execution_id:\n"
      "                        task_ex = db_api.get_task_execution(",
      "                    if True:\n"
      "                        task_ex = db_api.get_task_execution("),
    m('C20-bypass-handler', 'C20', ['R3'],
      'mistral/services/action_heartbeat_checker.py',
      "                action_handler.on_action_complete(action_ex, result)",
      "                action_ex.state = 'ERROR'"),
    m('C20-integrity-on-finished', 'C20', ['R4'], E + 'workflow_handler.py',
      "        if states.is_completed(wf_ex.state):\n            return\n\n"
      "        _schedule_check_and_fix_integrity(wf_ex, delay=120)",
      "        _schedule_check_and_fix_integrity(wf_ex, delay=120)"),
    m('C20-recover-any-task', 'C20', ['R4'], E + 'workflow_handler.py',
      "            if all_finished:\n                # Find the timestamp",
      "            if True:\n                # Find the timestamp"),
    m('C20-heartbeat-leak', 'C20', ['R5'],
      'mistral/executors/default_executor.py',
      "        finally:\n"
      "            action_heartbeat_sender.remove_action(action_ex_id)",
      "        except Exception:\n"
      "            action_heartbeat_sender.remove_action(action_ex_id)\n"
      "            raise"),
    # ---- round four: shared cached specs, fresh policies, trust context --
    m('C05-on-complete-spec-takes-clause-publish', 'C05', ['R10'],
      'mistral/lang/v2/tasks.py',
      "            if spec:\n                on_clause.get_publish().merge(spec)"
      "\n\n            return on_clause.get_publish()",
      "            if not spec:\n                return on_clause.get_publish()"
      "\n\n            spec.merge(on_clause.get_publish())"),
    m('C05-merge-writes-into-argument', 'C05', ['R10'],
      'mistral/lang/v2/publish.py',
      "                self._branch = utils.merge_dicts(\n"
      "                    {} if self._branch is None else self._branch,\n"
      "                    spec_to_merge.get_branch()\n                )",
      "                self._branch = utils.merge_dicts(\n"
      "                    spec_to_merge.get_branch(),\n"
      "                    {} if self._branch is None else self._branch\n"
      "                )"),
    m('C05-final-context-plain-merge-under-versioning', 'C05', ['R8'],
      W + 'direct_workflow.py',
      "                ctx = data_flow.evaluate_upstream_context(\n"
      "                    batch,\n                    additive_context=ctx\n"
      "                )",
      "                ctx = utils.merge_dicts(\n                    ctx,\n"
      "                    data_flow.evaluate_upstream_context(batch)\n"
      "                )"),
    m('C08-policy-list-memoized', 'C08', ['R10'], E + 'policies.py',
      "def build_policies(policies_spec, wf_spec):",
      "@functools.lru_cache(maxsize=1000)\n"
      "def build_policies(policies_spec, wf_spec):"),
    m('C08-retry-policy-factory-cached', 'C08', ['R10'], E + 'policies.py',
      "def build_retry_policy(policies_spec):",
      "@cachetools.cached(cachetools.LRUCache(maxsize=100))\n"
      "def build_retry_policy(policies_spec):"),
    m('C14-reverse-requires-accept-engine-commands', 'C14', ['R10'],
      'mistral/lang/v2/workflows.py',
      "                self._validate_task_link(req, allow_engine_cmds=False)",
      "                self._validate_task_link(req)"),
    m('C14-task-link-commands-always-valid', 'C14', ['R10'],
      'mistral/lang/v2/workflows.py',
      "        if allow_engine_cmds:\n            valid_task |= task_name in "
      "ENGINE_COMMANDS",
      "        valid_task |= task_name in ENGINE_COMMANDS"),
    m('C14-reverse-own-requires-only', 'C14', ['R10'],
      'mistral/lang/v2/workflows.py',
      "            for req in self.get_task_requires(t_s):\n"
      "                self._validate_task_link(req, allow_engine_cmds=False)",
      "            for req in t_s.get_requires():\n"
      "                self._validate_task_link(req, allow_engine_cmds=False)"),
    m('C17-trustless-trigger-admin-context', 'C17', ['R4'],
      'mistral/services/security.py',
      "    if CONF.pecan.auth_enable:\n        client = "
      "keystone.client_for_trusts(trust_id)",
      "    if CONF.pecan.auth_enable and trust_id:\n        client = "
      "keystone.client_for_trusts(trust_id)"),
    m('C17-trust-context-without-project', 'C17', ['R4'],
      'mistral/services/security.py',
      "            user_id=user_id,\n            project_id=project_id,\n"
      "            auth_token=token,\n            is_trust_scoped=True,",
      "            user_id=user_id,\n            project_id=None,\n"
      "            auth_token=token,\n            is_trust_scoped=True,"),
    m('C11-cancelled-item-not-terminal', 'C11', ['R7'], E + 'tasks.py',
      "        if list(filter(find_cancelled, self.task_ex.executions)):\n"
      "            return True\n\n        execs = list(",
      "        execs = list("),
    m('C11-final-state-error-before-cancelled', 'C11', ['R7'], E + 'tasks.py',
      "        if list(filter(find_cancelled, self.task_ex.executions)):\n"
      "            return states.CANCELLED\n"
      "        elif list(filter(find_error, self.task_ex.executions)):\n"
      "            return states.ERROR",
      "        if list(filter(find_error, self.task_ex.executions)):\n"
      "            return states.ERROR\n"
      "        elif list(filter(find_cancelled, self.task_ex.executions)):\n"
      "            return states.CANCELLED"),
    m('C15-keycloak-roles-header-kept', 'C15', ['R8'],
      'mistral/auth/keycloak.py',
      '        req.headers["X-Roles"] = roles',
      '        if roles:\n            req.headers["X-Roles"] = roles'),
    m('C16-keycloak-project-header-default', 'C16', ['R8'],
      'mistral/auth/keycloak.py',
      '        req.headers["X-Project-Id"] = realm_name',
      '        req.headers.setdefault("X-Project-Id", realm_name)'),
    m('C15-target-roles-from-header', 'C15', ['R8'], 'mistral/context.py',
      "            'user_id': headers.get('X-Target-User-Id'),",
      "            'user_id': headers.get('X-Target-User-Id'),\n"
      "            'roles': headers.get('X-Target-Roles', '').split(','),"),
    m('C12-upstream-query-without-skipped', 'C12', ['R4'],
      W + 'direct_workflow.py',
      "            name={'in': t_specs_names},\n"
      "            state={'in': (states.SUCCESS, states.ERROR,\n"
      "                          states.CANCELLED, states.SKIPPED)},",
      "            name={'in': t_specs_names},\n"
      "            state={'in': (states.SUCCESS, states.ERROR,\n"
      "                          states.CANCELLED)},"),
    m('C05-upstream-query-success-only', 'C05', ['R9'],
      W + 'direct_workflow.py',
      "                state={'in': (states.SUCCESS, states.ERROR,\n"
      "                              states.CANCELLED, states.SKIPPED)},\n"
      "                processed=True",
      "                state=states.SUCCESS,\n"
      "                processed=True"),
    m('C14-yaql-error-object-as-message', 'C14', ['R2'],
      'mistral/expressions/yaql_expression.py',
      "raise exc.YaqlGrammarException(str(getattr(e, 'message', e)))",
      "raise exc.YaqlGrammarException(getattr(e, 'message', e))"),
    m('C14-recursion-error-not-converted', 'C14', ['R3'],
      'mistral/lang/parser.py',
      "    except RecursionError:\n",
      "    except MemoryError:\n"),
    m('C14-inline-params-merged-into-expression-input', 'C14', ['R6'],
      'mistral/lang/v2/tasks.py',
      "        if params:\n            if not isinstance(self._input, dict):",
      "        if params:\n            if self._input is None:"),
    m('C12-reverse-skipped-prerequisite-blocks', 'C12', ['R4'],
      W + 'reverse_workflow.py',
      "            if t_ex.state in (states.SUCCESS, states.SKIPPED):\n"
      "                success_t_names.add(t_ex.name)",
      "            if t_ex.state == states.SUCCESS:\n"
      "                success_t_names.add(t_ex.name)"),
    m('C04-reverse-data-from-success-only', 'C04', ['R6'],
      W + 'reverse_workflow.py',
      "            if t_ex.state in (states.SUCCESS, states.SKIPPED)\n"
      "        ]",
      "            if t_ex.state == states.SUCCESS\n        ]"),
    m('C04-reverse-error-prerequisite-counts', 'C04', ['R6'],
      W + 'reverse_workflow.py',
      "            if t_ex.state in (states.SUCCESS, states.SKIPPED):\n"
      "                success_t_names.add(t_ex.name)",
      "            if states.is_completed(t_ex.state):\n"
      "                success_t_names.add(t_ex.name)"),
    m('C07-paused-item-not-counted-as-started', 'C07', ['R10'],
      E + 'tasks.py',
      "        f = lambda x: x.accepted or not states.is_completed(x.state)",
      "        f = lambda x: (x.accepted or states.is_running(x.state) or\n"
      "                       states.is_idle(x.state))"),
    m('C14-jinja-recursion-error-not-converted', 'C14', ['R3'],
      'mistral/expressions/jinja_expression.py',
      "        except RecursionError:\n"
      "            # The Jinja parser is recursive",
      "        except MemoryError:\n"
      "            # The Jinja parser is recursive"),
    m('C10-backlog-wait-saved-negated', 'C10', ['R4'],
      'mistral/workflow/commands.py',
      "        d['wait'] = self.wait\n", "        d['wait'] = not self.wait\n"),
    # F36 put back
    m('C05-rerun-drops-triggered-by', 'C05', ['R9'], E + 'tasks.py',
      "            if triggered_by:\n                runtime_context["
      "'triggered_by'] = triggered_by\n",
      "            if False:\n                runtime_context["
      "'triggered_by'] = triggered_by\n"),
    m('C12-rerun-restores-triggered-by-for-joins-only', 'C12', ['R8'],
      E + 'tasks.py',
      "            if triggered_by:\n                runtime_context["
      "'triggered_by'] = triggered_by\n",
      "            if triggered_by and self.task_spec.get_join():\n"
      "                runtime_context['triggered_by'] = triggered_by\n"),
    # F32-F34 put back
    m('C14-version-overflow-not-caught', 'C14', ['R12'],
      'mistral/lang/parser.py',
      "    except (ValueError, TypeError, OverflowError):",
      "    except (ValueError, TypeError):"),
    m('C14-version-returned-as-written', 'C14', ['R12'],
      'mistral/lang/parser.py',
      "    return str_ver\n", "    return ver\n"),
    m('C14-section-search-unguarded', 'C14', ['R12'],
      'mistral/lang/parser.py',
      "    if section_name not in wb_def:", "    if False:"),
    m('C14-adhoc-input-stdlib-json', 'C14', ['R12'],
      'mistral/services/adhoc_actions.py',
      "from oslo_serialization import jsonutils\n",
      "import json as jsonutils\n"),
    m('C14-member-names-not-checked', 'C14', ['R12'],
      'mistral/lang/base.py',
      "            if not isinstance(k, str):\n                raise "
      "exc.InvalidModelException(\n                    \"Name of a list",
      "            if False:\n                raise "
      "exc.InvalidModelException(\n                    \"Name of a list"),
]


def r(mid, prop, path, old, new, count=1):
    return {'id': mid, 'prop': prop, 'rules': [], 'path': path, 'old': old,
            'new': new, 'count': count}


# behaviour-preserving variants: the rules must stay silent
REFACTORS = [
    r('C03-ref-flip-compare', 'C03', E + 'tasks.py',
      "        if self.task_ex.state == states.SUCCESS:\n"
      "            raise exc.MistralError(",
      "        if states.SUCCESS == self.task_ex.state:\n"
      "            raise exc.MistralError("),
    r('C03-ref-guard-spelling', 'C03', E + 'workflows.py',
      "        if states.is_paused(self.wf_ex.state):\n            return\n\n"
      "        # Set the state of this workflow to paused.",
      "        if self.wf_ex.state == states.PAUSED:\n            return\n\n"
      "        # Set the state of this workflow to paused."),
    r('C03-ref-positive-form', 'C03', E + 'workflows.py',
      "        if not self.set_state(states.CANCELLED, state_info=msg):\n"
      "            return\n\n"
      "        # When we set an ERROR state we should safely set output "
      "value getting\n"
      "        # w/o exceptions due to field size limitations.\n"
      "        msg = utils.cut_by_kb(\n            msg,\n"
      "            cfg.CONF.engine.execution_field_size_limit_kb\n"
      "        )\n\n        self.wf_ex.output = {'result': msg}\n\n"
      "        if self.wf_ex.task_execution_id:\n"
      "            self._send_result_to_parent_workflow()",
      "        if self.set_state(states.CANCELLED, state_info=msg):\n"
      "            msg = utils.cut_by_kb(\n                msg,\n"
      "                cfg.CONF.engine.execution_field_size_limit_kb\n"
      "            )\n\n            self.wf_ex.output = {'result': msg}\n\n"
      "            if self.wf_ex.task_execution_id:\n"
      "                self._send_result_to_parent_workflow()"),
    r('C11-ref-completed-spelling', 'C11', E + 'dispatcher.py',
      "        if states.is_completed(wf_ex.state):\n            break",
      "        if wf_ex.state in (states.SUCCESS, states.ERROR, "
      "states.CANCELLED, states.SKIPPED):\n            break"),
    r('C10-ref-paused-spelling', 'C10', E + 'dispatcher.py',
      "        if wf_ex.state == states.PAUSED:",
      "        if states.is_paused(wf_ex.state):"),
    r('C10-ref-rename-local', 'C10', E + 'tasks.py',
      "        cmds = wf_ctrl.continue_workflow(task_ex=self.task_ex)",
      "        cmds = wf_ctrl.continue_workflow(\n            "
      "task_ex=self.task_ex\n        )"),
    r('C16-ref-log-before-enforce', 'C16', A + 'environment.py',
      "        acl.enforce('environments:delete', context.ctx())\n\n"
      "        LOG.debug(\"Delete environment [name=%s]\", name)",
      "        LOG.debug(\"Delete environment [name=%s]\", name)\n\n"
      "        acl.enforce('environments:delete', context.ctx())"),
    r('C16-ref-state-test-spelling', 'C16', A + 'execution.py',
      "            elif delta.get('state') == states.RUNNING:",
      "            elif states.RUNNING == delta.get('state'):"),
    r('C16-ref-delete-guard-positive', 'C16', A + 'execution.py',
      "            if not states.is_completed(state):\n"
      "                raise exc.NotAllowedException(",
      "            if state not in (states.SUCCESS, states.ERROR, "
      "states.CANCELLED, states.SKIPPED):\n"
      "                raise exc.NotAllowedException("),
    r('C15-ref-check-moved-up', 'C15', D + 'api.py',
      "    code_src = get_code_source(identifier, namespace=namespace)\n\n"
      "    _check_modify_access(code_src)\n\n"
      "    values['version'] = code_src.version + 1",
      "    code_src = get_code_source(identifier, namespace=namespace)\n"
      "    _check_modify_access(code_src)\n"
      "    values['version'] = code_src.version + 1"),
    r('C13-ref-flip-delay-test', 'C13',
      'mistral/scheduler/default_scheduler.py',
      "                if delay > 0:", "                if 0 < delay:"),
    r('C13-ref-capture-positive', 'C13',
      'mistral/scheduler/default_scheduler.py',
      "        return updated_cnt == 1", "        return 1 == updated_cnt"),
    r('C08-ref-retry-flip', 'C08', E + 'policies.py',
      "        retries_remain = retry_no < self.count",
      "        retries_remain = self.count > retry_no"),
    r('C07-ref-done-test-inverted', 'C07', E + 'tasks.py',
      "            if self._has_more_iterations() and "
      "self._get_concurrency():\n                self._schedule_actions()",
      "            if not (self._has_more_iterations() and "
      "self._get_concurrency()):\n                return\n\n"
      "            self._schedule_actions()"),
    r('C07-ref-final-state-early-returns', 'C07', E + 'tasks.py',
      "        elif list(filter(find_error, self.task_ex.executions)):\n"
      "            return states.ERROR\n        else:\n"
      "            return states.SUCCESS",
      "        if not list(filter(find_error, self.task_ex.executions)):\n"
      "            return states.SUCCESS\n\n        return states.ERROR"),
    r('C07-ref-capacity-guard-flipped', 'C07', E + 'tasks.py',
      "        if concurrency and ctx[self._CAPACITY] < concurrency:",
      "        if concurrency and concurrency > ctx[self._CAPACITY]:"),
    r('C08-ref-delay-truthiness', 'C08', E + 'policies.py',
      "        # No need to wait for a task if delay is 0\n"
      "        if self.delay == 0:\n            return\n",
      "        # No need to wait for a task if delay is 0\n"
      "        if not self.delay:\n            return\n"),
    r('C08-ref-timeout-membership', 'C08', E + 'policies.py',
      "        if not states.is_completed(task_ex.state):\n"
      "            msg = 'Task timed out",
      "        if task_ex.state not in (states.SUCCESS, states.ERROR,\n"
      "                                 states.CANCELLED, states.SKIPPED):\n"
      "            msg = 'Task timed out"),
    r('C11-ref-cascade-continue', 'C11', E + 'workflow_handler.py',
      "            for sub_wf_ex in sub_wf_exs:\n"
      "                if not states.is_completed(sub_wf_ex.state):\n"
      "                    stop_workflow(sub_wf_ex, state, msg=msg)",
      "            for sub_wf_ex in sub_wf_exs:\n"
      "                if states.is_completed(sub_wf_ex.state):\n"
      "                    continue\n\n"
      "                stop_workflow(sub_wf_ex, state, msg=msg)"),
    r('C09-ref-accepted-two-stores', 'C09', E + 'workflows.py',
      "        self.wf_ex.accepted = states.is_completed(state)\n\n"
      "        if states.is_completed(state):\n"
      "            triggers.on_workflow_complete(self.wf_ex)",
      "        if states.is_completed(state):\n"
      "            self.wf_ex.accepted = True\n\n"
      "            triggers.on_workflow_complete(self.wf_ex)\n"
      "        else:\n            self.wf_ex.accepted = False"),
    r('C07-ref-accepted-two-stores', 'C07', E + 'workflows.py',
      "        self.wf_ex.accepted = states.is_completed(state)\n\n"
      "        if states.is_completed(state):\n"
      "            triggers.on_workflow_complete(self.wf_ex)",
      "        if states.is_completed(state):\n"
      "            self.wf_ex.accepted = True\n\n"
      "            triggers.on_workflow_complete(self.wf_ex)\n"
      "        else:\n            self.wf_ex.accepted = False"),
    r('C05-ref-additive-positional', 'C05', W + 'direct_workflow.py',
      "                ctx = data_flow.evaluate_upstream_context(\n"
      "                    batch,\n"
      "                    additive_context=ctx\n                )",
      "                ctx = data_flow.evaluate_upstream_context(batch, "
      "ctx)"),
    r('C07-ref-tail-set-difference', 'C07', E + 'tasks.py',
      "                indices += [\n"
      "                    i for i in range(max(candidates) + 1, count)\n"
      "                    if i not in started\n                ]",
      "                indices += sorted(\n"
      "                    set(range(max(candidates) + 1, count)) - started\n"
      "                )"),
    r('C13-ref-transaction-positive-commit', 'C13', D + 'api.py',
      "            if read_only:\n                rollback_tx()\n"
      "            else:\n                commit_tx()\n",
      "            if not read_only:\n                commit_tx()\n"
      "            else:\n                rollback_tx()\n"),
    r('C01-ref-transaction-positive-commit', 'C01', D + 'api.py',
      "            if read_only:\n                rollback_tx()\n"
      "            else:\n                commit_tx()\n",
      "            if not read_only:\n                commit_tx()\n"
      "            else:\n                rollback_tx()\n"),
    r('C01-ref-base-next-commands-inverted', 'C01', W + 'base.py',
      "        if task_ex:\n            return []\n\n"
      "        # Add all tasks in IDLE state.\n        return [",
      "        if task_ex is not None:\n            return []\n\n"
      "        # Add all tasks in IDLE state.\n        return ["),
    r('C01-ref-direct-start-condition-swapped', 'C01',
      W + 'direct_workflow.py',
      "        if not task_ex and not self.wf_ex.task_executions:",
      "        if not self.wf_ex.task_executions and not task_ex:"),
    r('C10-ref-direct-start-condition-demorgan', 'C10',
      W + 'direct_workflow.py',
      "        if not task_ex and not self.wf_ex.task_executions:",
      "        if not (task_ex or self.wf_ex.task_executions):"),
    r('C01-ref-unknown-task-demorgan', 'C01', W + 'direct_workflow.py',
      "            if not (t_s or t_n in commands.ENGINE_CMD_CLS):",
      "            if not t_s and t_n not in commands.ENGINE_CMD_CLS:"),
    r('C08-ref-retry-locals-renamed', 'C08', E + 'policies.py',
      "        retries_remain = retry_no < self.count\n",
      "        retries_remain = self.count > retry_no\n"),
    r('C08-ref-retry-stop-nested', 'C08', E + 'policies.py',
      "        if not retries_remain or break_triggered or "
      "stop_continue_flag:\n            return\n",
      "        if not retries_remain:\n            return\n\n"
      "        if break_triggered or stop_continue_flag:\n"
      "            return\n"),
    r('C07-ref-start-index-comprehension', 'C07', E + 'tasks.py',
      "        f = lambda x: x.accepted or not states.is_completed(x.state)"
      "\n\n        return len(list(filter(f, self.task_ex.executions)))",
      "        return len([x for x in self.task_ex.executions\n"
      "                    if x.accepted or x.state not in ("
      "states.SUCCESS, states.ERROR, states.CANCELLED, states.SKIPPED)])"),
    r('C09-ref-resolution-equal-first', 'C09', E + 'utils.py',
      "    if parent_wf_name != parent_wf_spec_name:",
      "    if not parent_wf_name == parent_wf_spec_name:"),
    r('C17-ref-validate-count-order', 'C17', 'mistral/services/triggers.py',
      "        if not pattern and count and count > 1:",
      "        if count and count > 1 and not pattern:"),
    r('C16-ref-auth-hook-merged-guards', 'C16', 'mistral/context.py',
      "        if state.request.path in ALLOWED_WITHOUT_AUTH:\n"
      "            return\n\n        if not CONF.pecan.auth_enable:\n"
      "            return\n",
      "        if (state.request.path in ALLOWED_WITHOUT_AUTH or\n"
      "                not CONF.pecan.auth_enable):\n            return\n"),
    r('C04-ref-join-locals-really-renamed', 'C04', W + 'direct_workflow.py',
      "        errors_tuple = count(states.ERROR)\n"
      "        runnings_tuple = count(states.RUNNING)\n"
      "        total_count = len(induced_states)",
      "        errors_tuple = count(states.ERROR)\n"
      "        runnings_tuple = count(states.RUNNING)\n"
      "        total_count = len(induced_states)\n"
      "        n_inbound = total_count"),
    r('C01-ref-queue-empty-by-len', 'C01', E + 'post_tx_queue.py',
      "            if not queue:\n                return res\n",
      "            if len(queue) == 0:\n                return res\n"),
    r('C09-ref-queue-positive-form', 'C09', E + 'post_tx_queue.py',
      "            if not queue:\n                return res\n\n"
      "            auth_ctx = context.ctx() if context.has_ctx() else None\n",
      "            if not queue:\n                return res\n\n"
      "            auth_ctx = None\n\n            if context.has_ctx():\n"
      "                auth_ctx = context.ctx()\n"),
    r('C04-ref-join-compare-mirrored', 'C04', W + 'direct_workflow.py',
      "            if runnings_tuple[0] >= spec_cardinality:",
      "            if spec_cardinality <= runnings_tuple[0]:"),
    r('C04-ref-join-unreachable-rearranged', 'C04', W + 'direct_workflow.py',
      "            if errors_tuple[0] > (total_count - spec_cardinality):",
      "            if errors_tuple[0] + spec_cardinality >= total_count + 1:"),
    r('C04-ref-join-all-ge', 'C04', W + 'direct_workflow.py',
      "            if total_count == runnings_tuple[0]:",
      "            if runnings_tuple[0] >= total_count:"),
    r('C04-ref-join-locals-renamed', 'C04', W + 'direct_workflow.py',
      "        errors_tuple = count(states.ERROR)\n"
      "        runnings_tuple = count(states.RUNNING)\n"
      "        total_count = len(induced_states)",
      "        errors_tuple = count(states.ERROR)\n"
      "        runnings_tuple = count(states.RUNNING)\n"
      "        total_count = len(induced_states)\n"
      "        LOG.debug('join %s', join_expr)"),
    r('C04-ref-induced-positive-form', 'C04', W + 'direct_workflow.py',
      "        if join_task_name not in next_tasks_dict:\n"
      "            return states.ERROR, 1, \"not triggered\"\n\n"
      "        return states.RUNNING, 1, next_tasks_dict[join_task_name]",
      "        if join_task_name in next_tasks_dict:\n"
      "            return states.RUNNING, 1, next_tasks_dict[join_task_name]"
      "\n\n        return states.ERROR, 1, \"not triggered\""),
    r('C04-ref-route-state-membership', 'C04', W + 'direct_workflow.py',
      "                if not states.is_completed(t_ex.state):\n"
      "                    return True, depth",
      "                if t_ex.state not in (states.SUCCESS, states.ERROR, "
      "states.CANCELLED, states.SKIPPED):\n"
      "                    return True, depth"),
    r('C04-ref-walk-nested-ifs', 'C04', W + 'direct_workflow.py',
      "            if t_name in all_joins and t_name in t_execs_cache:\n"
      "                res.add(t_execs_cache[t_name])\n"
      "                continue\n",
      "            if t_name in all_joins:\n"
      "                if t_name in t_execs_cache:\n"
      "                    res.add(t_execs_cache[t_name])\n"
      "                    continue\n"),
    r('C12-ref-affected-inline-predicate', 'C12', E + 'task_handler.py',
      "    if not task.is_completed():\n        return\n\n"
      "    task_ex = task.task_ex\n",
      "    if not states.is_completed(task.task_ex.state):\n"
      "        return\n\n    task_ex = task.task_ex\n"),
    r('C12-ref-processed-positional', 'C12', E + 'tasks.py',
      "        self.set_state(states.RUNNING, None, processed=False)",
      "        self.set_state(states.RUNNING, None, False)"),
    r('C01-ref-dispatch-branch-order', 'C01', E + 'dispatcher.py',
      "        elif isinstance(cmd, commands.SkipTask):\n"
      "            task_handler.skip_task(cmd)\n"
      "        elif isinstance(cmd, commands.SetWorkflowState):\n"
      "            wf_handler.set_workflow_state(wf_ex, cmd.new_state, "
      "cmd.msg)\n",
      "        elif isinstance(cmd, commands.SetWorkflowState):\n"
      "            wf_handler.set_workflow_state(wf_ex, cmd.new_state, "
      "cmd.msg)\n"
      "        elif isinstance(cmd, commands.SkipTask):\n"
      "            task_handler.skip_task(cmd)\n"),
    r('C20-ref-integrity-guard-order', 'C20', E + 'workflow_handler.py',
      "        if not wf_ex:\n            return\n\n"
      "        if states.is_completed(wf_ex.state):\n            return\n",
      "        if not wf_ex or states.is_completed(wf_ex.state):\n"
      "            return\n"),
    r('C02-ref-version-prefix-renamed', 'C02', W + 'context_versioning.py',
      "            new_prefix = k if not prefix else prefix + \".\" + k\n\n"
      "            if isinstance(left_v, dict) and isinstance(v, dict):\n"
      "                _merge_ctx(left_v, ver_left, v, ver_right, "
      "new_prefix)",
      "            new_prefix = k if not prefix else prefix + \".\" + k\n"
      "            path = new_prefix\n\n"
      "            if isinstance(left_v, dict) and isinstance(v, dict):\n"
      "                _merge_ctx(left_v, ver_left, v, ver_right, "
      "prefix=path)"),
    r('C07-ref-lock-name-format', 'C07', E + 'tasks.py',
      "        with db_api.named_lock('with-items-%s' % self.task_ex.id):",
      "        with db_api.named_lock('with-items-{}'.format("
      "self.task_ex.id)):"),
    r('C04-ref-waiting-test', 'C04', E + 'tasks.py',
      "    def _run_new(self):\n        if self.waiting:\n            return\n",
      "    def _run_new(self):\n        if self.waiting is True or "
      "self.waiting:\n            return\n"),
    r('C05-ref-version-compare-flip', 'C05', W + 'context_versioning.py',
      "                if r_ver > l_ver:", "                if l_ver < r_ver:"),
    r('C02-ref-version-compare-flip', 'C02', W + 'context_versioning.py',
      "                if r_ver > l_ver:", "                if l_ver < r_ver:"),
    r('C17-ref-modified-flip', 'C17', 'mistral/services/periodic.py',
      "    return modified_count > 0", "    return 0 < modified_count"),
    r('C19-ref-extra-scheme-order', 'C19', 'mistral/utils/egress.py',
      "    if parsed.scheme not in ('http', 'https'):",
      "    if parsed.scheme not in ('https', 'http'):"),
    r('C20-ref-threshold-order', 'C20',
      'mistral/services/action_heartbeat_checker.py',
      "        seconds=max_missed * interval",
      "        seconds=interval * max_missed"),
    r('C01-ref-handler-tuple-order', 'C01', E + 'task_handler.py',
      "    except (exc.MistralException, mistral_lib_exc.MistralException) "
      "as e:\n        wf_ex = task_ex.workflow_execution\n\n"
      "        msg = (\n            \"Failed to complete task",
      "    except (mistral_lib_exc.MistralException, exc.MistralException) "
      "as e:\n        wf_ex = task_ex.workflow_execution\n\n"
      "        msg = (\n            \"Failed to complete task"),
    r('C12-ref-error-test-flip', 'C12', A + 'task.py',
      "        if task_ex.state != states.ERROR:",
      "        if states.ERROR != task_ex.state:"),
    r('C18-ref-break-positive', 'C18',
      'mistral/services/expiration_policy.py',
      "            if not execs:\n                break\n"
      "            _delete(execs)",
      "            if execs:\n                _delete(execs)\n"
      "            else:\n                break"),
    r('C09-ref-cancel-test-in', 'C09', E + 'workflows.py',
      "        elif self.wf_ex.state == states.CANCELLED:\n            err_msg",
      "        elif self.wf_ex.state in (states.CANCELLED,):\n"
      "            err_msg"),
    r('C06-ref-idle-spelling', 'C06', E + 'tasks.py',
      "        if states.is_idle(self.task_ex.state):\n            # Set the "
      "RUNNING state",
      "        if self.task_ex.state == states.IDLE:\n            # Set the "
      "RUNNING state"),
    r('C14-ref-isinstance-positive', 'C14', 'mistral/lang/parser.py',
      "    if not isinstance(data, dict):\n"
      "        raise exc.DSLParsingException(\n"
      "            \"Definition must be a YAML mapping, got '%s' instead.\" "
      "%\n            type(data).__name__\n        )\n\n    return data",
      "    if isinstance(data, dict):\n        return data\n\n"
      "    raise exc.DSLParsingException(\n"
      "        \"Definition must be a YAML mapping, got '%s' instead.\" %\n"
      "        type(data).__name__\n    )"),
    r('C05-ref-get-publish-local-clause-spec', 'C05',
      'mistral/lang/v2/tasks.py',
      "        if on_clause and on_clause.get_publish():\n"
      "            if spec:\n                on_clause.get_publish().merge(spec)"
      "\n\n            return on_clause.get_publish()",
      "        clause_publish = on_clause.get_publish() if on_clause else None"
      "\n\n        if clause_publish:\n"
      "            if spec:\n                clause_publish.merge(spec)"
      "\n\n            return clause_publish"),
    r('C10-ref-backlog-ctx-copied', 'C10', 'mistral/workflow/commands.py',
      "            'ctx': self.ctx,\n",
      "            'ctx': dict(self.ctx),\n"),
    r('C05-ref-cleanup-pops-triggered-by', 'C05', E + 'tasks.py',
      "            triggered_by = runtime_context.get('triggered_by')\n",
      "            triggered_by = runtime_context.pop('triggered_by', None)\n"),
    r('C14-ref-version-broad-handler', 'C14', 'mistral/lang/parser.py',
      "    except (ValueError, TypeError, OverflowError):",
      "    except (ValueError, TypeError, ArithmeticError):"),
    r('C14-ref-section-search-try', 'C14', 'mistral/lang/parser.py',
      "    io = six_io.StringIO(wb_def[wb_def.index(section_name):])",
      "    start = wb_def.index(section_name)\n"
      "    io = six_io.StringIO(wb_def[start:])"),
    r('C14-ref-task-link-early-return', 'C14', 'mistral/lang/v2/workflows.py',
      "        valid_task = self._task_exists(task_name)\n\n"
      "        if allow_engine_cmds:\n            valid_task |= task_name in "
      "ENGINE_COMMANDS\n\n        if not valid_task:\n"
      "            raise exc.InvalidModelException(\n"
      "                \"Task '%s' not found.\" % task_name\n            )",
      "        if self._task_exists(task_name):\n            return\n\n"
      "        if allow_engine_cmds and task_name in ENGINE_COMMANDS:\n"
      "            return\n\n"
      "        raise exc.InvalidModelException(\n"
      "            \"Task '%s' not found.\" % task_name\n        )"),
    r('C17-ref-context-auth-disabled-first', 'C17',
      'mistral/services/security.py',
      "    if CONF.pecan.auth_enable:\n        client = "
      "keystone.client_for_trusts(trust_id)",
      "    if not CONF.pecan.auth_enable:\n"
      "        return auth_ctx.MistralContext(\n"
      "            user_id=None,\n            project_id=None,\n"
      "            auth_token=None,\n            is_admin=True\n        )\n\n"
      "    if True:\n        client = "
      "keystone.client_for_trusts(trust_id)"),
    r('C08-ref-policies-local-list', 'C08', E + 'tasks.py',
      "        for p in policies.build_policies(policies_spec, self.wf_spec):"
      "\n            p.before_task_start(self)",
      "        built = policies.build_policies(policies_spec, self.wf_spec)\n"
      "\n        for p in built:\n            p.before_task_start(self)"),
    r('C15-ref-keycloak-headers-update-order', 'C15',
      'mistral/auth/keycloak.py',
      '        req.headers["X-Identity-Status"] = "Confirmed"\n'
      '        req.headers["X-Project-Id"] = realm_name\n'
      '        req.headers["X-Roles"] = roles',
      '        req.headers["X-Roles"] = roles\n'
      '        req.headers["X-Project-Id"] = realm_name\n'
      '        req.headers["X-Identity-Status"] = "Confirmed"'),
    r('C05-ref-upstream-states-list', 'C05', W + 'direct_workflow.py',
      "            name={'in': t_specs_names},\n"
      "            state={'in': (states.SUCCESS, states.ERROR,\n"
      "                          states.CANCELLED, states.SKIPPED)},",
      "            name={'in': t_specs_names},\n"
      "            state={'in': [states.SKIPPED, states.CANCELLED,\n"
      "                          states.ERROR, states.SUCCESS]},"),
    r('C14-ref-inline-params-early-return', 'C14', 'mistral/lang/v2/tasks.py',
      "        if params:\n            if not isinstance(self._input, dict):\n"
      "                raise exc.InvalidModelException(\n"
      "                    \"Task input given as an expression can't be "
      "combined \"\n"
      "                    \"with inline parameters [task_name=%s]\" % "
      "self._name\n                )\n\n"
      "            utils.merge_dicts(self._input, params)",
      "        if not params:\n            return\n\n"
      "        if not isinstance(self._input, dict):\n"
      "            raise exc.InvalidModelException(\n"
      "                \"Task input given as an expression can't be "
      "combined \"\n"
      "                \"with inline parameters [task_name=%s]\" % "
      "self._name\n            )\n\n"
      "        utils.merge_dicts(self._input, params)"),
    r('C04-ref-reverse-done-predicate-order', 'C04', W + 'reverse_workflow.py',
      "            if t_ex.state in (states.SUCCESS, states.SKIPPED):\n"
      "                success_t_names.add(t_ex.name)",
      "            if t_ex.state == states.SKIPPED or "
      "t_ex.state == states.SUCCESS:\n"
      "                success_t_names.add(t_ex.name)"),
]
