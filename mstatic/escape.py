"""Explicit-raise escape analysis.

For every function the set of exception classes that are raised by a `raise`
statement in it or in a callee (call graph, synchronous edges) and are not
caught by an enclosing `try` on the way.  Only *explicit* raises are tracked:
implicit exceptions of library calls and of Python operations are out of
reach (that is why C01/C14 list totality as not decided).
"""
import ast
import builtins

from mstatic.core import dotted, own_nodes


def _builtin_mro(name):
    cls = getattr(builtins, name, None)
    if isinstance(cls, type) and issubclass(cls, BaseException):
        return [c.__name__ for c in cls.__mro__]
    return None


class Escapes(object):
    def __init__(self, prog, cg):
        self.p = prog
        self.cg = cg
        self._sup = {}
        self.raised = {}
        self.witness = {}
        self._compute()

    # ---- class lattice ---------------------------------------------------
    def supers(self, cname):
        """All ancestor names (qualified for repo classes, bare for
        builtins) of exception class `cname`, including itself."""
        if cname in self._sup:
            return self._sup[cname]
        out = [cname]
        if cname in self.p.classes:
            for k in self.p.mro(cname):
                if k not in out:
                    out.append(k)
                for b in self.p.bases.get(k, []):
                    if b not in self.p.classes:
                        bm = _builtin_mro(b.split('.')[-1])
                        for x in (bm or [b]):
                            if x not in out:
                                out.append(x)
        else:
            bm = _builtin_mro(cname.split('.')[-1])
            if bm:
                out = bm
            else:
                # unknown third-party class: assume it is an Exception
                out = [cname, 'Exception', 'BaseException']
        self._sup[cname] = out
        return out

    def resolve_cls(self, f, node):
        if node is None:
            return None
        e = node.func if isinstance(node, ast.Call) else node
        d = dotted(e)
        if d is None:
            return None
        r = self.p.resolve_dotted(f.module, d)
        if r in self.p.classes:
            return r
        if _builtin_mro(d) is not None:
            return d
        # names bound to caught exception instances (`raise e`) -> unknown
        if '.' not in d:
            return None
        return d

    def caught_by(self, f, handler_types, cname):
        sup = self.supers(cname)
        for h in handler_types:
            if h in ('BaseException', 'Exception') and h in sup:
                return True
            r = self.p.resolve_dotted(f.module, h)
            if r in sup or h in sup or h.split('.')[-1] in [
                    s.split('.')[-1] for s in sup if s not in self.p.classes]:
                return True
        return False

    def _is_abstract_stub(self, f, raise_node, cname):
        if cname != 'NotImplementedError':
            return False
        if f.has_decorator('abstractmethod'):
            return True
        body = [x for x in f.node.body
                if not (isinstance(x, ast.Expr) and
                        isinstance(x.value, ast.Constant))]
        return len(body) == 1 and body[0] is raise_node

    def is_declared(self, cname):
        """Class is one of the service's own error types."""
        return any(x.endswith('.MistralFailuresBase') or
                   x.endswith('exceptions.MistralExceptionBase')
                   for x in self.supers(cname))

    # ---- per function ------------------------------------------------------
    def _enclosing_handlers(self, f):
        """{id(node): [handler type lists outermost..innermost]} for nodes
        inside try bodies of f."""
        out = {}

        def walk(stmts, stack):
            for s in stmts:
                if isinstance(s, (ast.FunctionDef, ast.AsyncFunctionDef,
                                  ast.ClassDef)):
                    continue
                if isinstance(s, ast.Try):
                    hs = []
                    for h in s.handlers:
                        if h.type is None:
                            hs.append('BaseException')
                        elif isinstance(h.type, ast.Tuple):
                            hs += [dotted(x) or '?' for x in h.type.elts]
                        else:
                            hs.append(dotted(h.type) or '?')
                    walk(s.body, stack + [hs])
                    for h in s.handlers:
                        walk(h.body, stack)
                    walk(s.orelse, stack)
                    walk(s.finalbody, stack)
                    continue
                for n in ast.walk(s) if not isinstance(
                        s, (ast.If, ast.For, ast.While, ast.With)) else []:
                    out[id(n)] = stack
                if isinstance(s, (ast.If, ast.While)):
                    for n in ast.walk(s.test):
                        out[id(n)] = stack
                    walk(s.body, stack)
                    walk(s.orelse, stack)
                elif isinstance(s, ast.For):
                    for n in ast.walk(s.iter):
                        out[id(n)] = stack
                    walk(s.body, stack)
                    walk(s.orelse, stack)
                elif isinstance(s, ast.With):
                    for it in s.items:
                        for n in ast.walk(it.context_expr):
                            out[id(n)] = stack
                    walk(s.body, stack)
                out[id(s)] = stack
        walk(f.node.body, [])
        return out

    def _compute(self):
        p, cg = self.p, self.cg
        local = {}
        calls = {}
        for q, f in p.funcs.items():
            enc = self._enclosing_handlers(f)
            loc = {}
            for n in own_nodes(f.node):
                if isinstance(n, ast.Raise) and n.exc is not None:
                    c = self.resolve_cls(f, n.exc)
                    if c is None:
                        continue
                    stack = enc.get(id(n), [])
                    if any(self.caught_by(f, hs, c) for hs in stack):
                        continue
                    if self._is_abstract_stub(f, n, c):
                        continue
                    loc[(c, q)] = n.lineno
            local[q] = loc
            cs = []
            for (node, tg) in cg.sites.get(q, ()):
                stack = enc.get(id(node), [])
                cs.append((tg, stack))
            calls[q] = cs
        raised = {q: dict(v) for q, v in local.items()}
        changed = True
        rounds = 0
        while changed and rounds < 30:
            changed = False
            rounds += 1
            for q, f in p.funcs.items():
                cur = raised[q]
                for tg, stack in calls[q]:
                    for t in tg:
                        if t not in raised or t == q:
                            continue
                        for key, w in raised[t].items():
                            if key in cur:
                                continue
                            if any(self.caught_by(f, hs, key[0])
                                   for hs in stack):
                                continue
                            cur[key] = w
                            changed = True
        self.raised = raised
