"""Alpha-normalisation of local variable names against a reference table.

Rules name locals of the functions they are anchored in (`wf_ex.state`,
`task.set_state(...)`, `cmds`): they were written against the names the
pinned tree uses.  Renaming a local is not a change of behaviour, so before
any rule runs every function is brought back to the reference spelling of
its locals: a local is identified by *how it is bound first* (the shape of
the assigned / iterated / entered expression with all locals anonymised,
plus its ordinal among equal shapes), and when the reference table
(`localnames.json`, generated from the tree by tools/gen_localnames.py)
knows that binding under another name, every occurrence of the current name
in the function is replaced by the reference name.  The replacement is a
consistent renaming (all occurrences, never onto a name that occurs in the
function), i.e. the analysed function is alpha-equivalent to the one in the
tree; a local whose binding changed is simply not found and keeps its name.
Only identifiers change: positions, the reported source lines and the
evidence refer to the file as it is.
"""
import ast
import hashlib
import json
import os

TABLE = os.path.join(os.path.dirname(os.path.abspath(__file__)),
                     'localnames.json')
_cache = {}


def load_table(path=TABLE):
    if path not in _cache:
        try:
            with open(path) as fh:
                _cache[path] = json.load(fh)
        except (OSError, ValueError):
            _cache[path] = {}
    return _cache[path]


def _excluded(fnode):
    """Names that are not renamed: parameters (of the function or of any
    nested function / lambda), global / nonlocal declarations, exception
    handler names, imported names, nested function and class names."""
    out = set()
    for x in ast.walk(fnode):
        if isinstance(x, ast.arg):
            out.add(x.arg)
        elif isinstance(x, (ast.Global, ast.Nonlocal)):
            out |= set(x.names)
        elif isinstance(x, ast.ExceptHandler) and x.name:
            out.add(x.name)
        elif isinstance(x, (ast.Import, ast.ImportFrom)):
            for a in x.names:
                out.add((a.asname or a.name).split('.')[0])
        elif isinstance(x, (ast.FunctionDef, ast.AsyncFunctionDef,
                            ast.ClassDef)) and x is not fnode:
            out.add(x.name)
    return out


def _locals(fnode):
    ex = _excluded(fnode)
    out = []
    for x in ast.walk(fnode):
        if isinstance(x, ast.Name) and isinstance(x.ctx, ast.Store) and \
                x.id not in ex and x.id not in out:
            out.append(x.id)
    return out


def _shape(e, local_names):
    """Structure of an expression with local names anonymised."""
    if isinstance(e, ast.Name):
        return '$' if e.id in local_names else e.id
    if isinstance(e, ast.Constant):
        return repr(e.value)
    if isinstance(e, ast.AST):
        parts = [type(e).__name__]
        for f_, v in ast.iter_fields(e):
            if f_ in ('ctx', 'lineno', 'col_offset', 'end_lineno',
                      'end_col_offset', 'type_comment', 'kind'):
                continue
            parts.append('%s=%s' % (f_, _shape(v, local_names)))
        return '(' + ' '.join(parts) + ')'
    if isinstance(e, list):
        return '[' + ','.join(_shape(x, local_names) for x in e) + ']'
    return repr(e)


def _path_to(target, name):
    """Position of Name `name` inside an assignment target."""
    if isinstance(target, ast.Name):
        return '' if target.id == name else None
    if isinstance(target, (ast.Tuple, ast.List)):
        for i, t in enumerate(target.elts):
            p = _path_to(t, name)
            if p is not None:
                return '%d.%s' % (i, p)
    if isinstance(target, ast.Starred):
        p = _path_to(target.value, name)
        return None if p is None else '*' + p
    return None


def _bindings(fnode, names):
    """First binding descriptor of every local, in source order."""
    first = {}
    ns = set(names)

    def note(name, desc):
        if name in ns and name not in first:
            first[name] = desc

    def visit(n):
        # source order: fields in order, statements in order
        if isinstance(n, ast.Assign):
            for t in n.targets:
                for nm in names:
                    p = _path_to(t, nm)
                    if p is not None:
                        note(nm, 'assign%s:%s' % (p and '@' + p,
                                                  _shape(n.value, ns)))
        elif isinstance(n, ast.AnnAssign) and n.value is not None:
            for nm in names:
                p = _path_to(n.target, nm)
                if p is not None:
                    note(nm, 'assign%s:%s' % (p and '@' + p,
                                              _shape(n.value, ns)))
        elif isinstance(n, ast.AugAssign):
            for nm in names:
                if _path_to(n.target, nm) is not None:
                    note(nm, 'aug:%s:%s' % (type(n.op).__name__,
                                            _shape(n.value, ns)))
        elif isinstance(n, (ast.For, ast.AsyncFor, ast.comprehension)):
            for nm in names:
                p = _path_to(n.target, nm)
                if p is not None:
                    note(nm, '%s@%s:%s' % (
                        'comp' if isinstance(n, ast.comprehension)
                        else 'for', p, _shape(n.iter, ns)))
        elif isinstance(n, (ast.With, ast.AsyncWith)):
            for it in n.items:
                if it.optional_vars is not None:
                    for nm in names:
                        p = _path_to(it.optional_vars, nm)
                        if p is not None:
                            note(nm, 'with@%s:%s' % (
                                p, _shape(it.context_expr, ns)))
        elif isinstance(n, ast.NamedExpr):
            note(n.target.id, 'walrus:%s' % _shape(n.value, ns))
        for c in ast.iter_child_nodes(n):
            visit(c)
    visit(fnode)
    return first


def signatures(fnode):
    """{local name: signature} - the first binding plus its ordinal among
    locals with the same first binding."""
    names = _locals(fnode)
    first = _bindings(fnode, names)
    seen = {}
    out = {}
    for nm in names:
        d = first.get(nm)
        if d is None:
            continue
        k = seen.get(d, 0)
        seen[d] = k + 1
        out[nm] = '%s:%s#%d' % (d.split(':', 1)[0], hashlib.sha1(
            d.encode()).hexdigest()[:12], k)
    return out


def normalise(qname, fnode, table):
    """Rename the locals of fnode (in place) to their reference names.
    Returns {current name: reference name} for what was renamed."""
    if qname not in table:
        return {}
    ref = table[qname].get('locals', {})
    _mirror_back(fnode, set(table[qname].get('eq', ())))
    cur = signatures(fnode)
    by_sig = {}
    for nm, sg in cur.items():
        by_sig.setdefault(sg, []).append(nm)
    used = {x.id for x in ast.walk(fnode) if isinstance(x, ast.Name)}
    used |= _excluded(fnode)
    ren = {}
    for ref_name, sg in ref.items():
        c = by_sig.get(sg)
        if not c or len(c) != 1:
            continue
        cn = c[0]
        if cn == ref_name or ref_name in used or cn in ref:
            # same name / the reference name is taken / the current name is
            # itself a reference name of this function (a swap: leave it)
            continue
        ren[cn] = ref_name
    if ren:
        for x in ast.walk(fnode):
            if isinstance(x, ast.Name) and x.id in ren:
                x.id = ren[x.id]
    _inline_new_test_values(fnode, set(ref))
    return ren


def eq_texts(fnode):
    """Texts of the ==/!= comparisons of a function (single operator)."""
    out = set()
    for x in ast.walk(fnode):
        if isinstance(x, ast.Compare) and len(x.ops) == 1 and \
                isinstance(x.ops[0], (ast.Eq, ast.NotEq)):
            out.add(' '.join(ast.unparse(x).split()))
    return out


def _mirror_back(fnode, ref_eq):
    """`b == a` where the reference writes `a == b` (and has no `b == a`)
    is put back in the reference's operand order: equality is symmetric,
    rules quote comparisons in the order the reference wrote them."""
    if not ref_eq:
        return
    for x in ast.walk(fnode):
        if isinstance(x, ast.Compare) and len(x.ops) == 1 and \
                isinstance(x.ops[0], (ast.Eq, ast.NotEq)):
            t = ' '.join(ast.unparse(x).split())
            if t in ref_eq:
                continue
            m = ast.Compare(left=x.comparators[0], ops=x.ops,
                            comparators=[x.left])
            if ' '.join(ast.unparse(m).split()) in ref_eq:
                x.left, x.comparators = x.comparators[0], [x.left]


def _has_call(e):
    return any(isinstance(y, (ast.Call, ast.Await, ast.Yield))
               for y in ast.walk(e))


def _inline_new_test_values(fnode, ref_names):
    """`v = <expr>` immediately followed by `if ... v ...:` where v is a
    local the reference does not know, bound once and read once (in that
    test): the value was only given a name to be tested.  The assignment is
    folded back into the test, so a rule sees the test the reference has."""
    stores, loads = {}, {}
    for x in ast.walk(fnode):
        if isinstance(x, ast.Name):
            d = stores if isinstance(x.ctx, ast.Store) else loads
            d[x.id] = d.get(x.id, 0) + 1
    ex = _excluded(fnode)

    def fold(stmts):
        i = 0
        while i + 1 < len(stmts):
            a, b = stmts[i], stmts[i + 1]
            if isinstance(a, ast.Assign) and len(a.targets) == 1 and \
                    isinstance(a.targets[0], ast.Name) and \
                    isinstance(b, (ast.If, ast.While)) is True and \
                    isinstance(b, ast.If):
                v = a.targets[0].id
                uses = [x for x in ast.walk(b.test)
                        if isinstance(x, ast.Name) and x.id == v]
                if v not in ref_names and v not in ex and \
                        stores.get(v) == 1 and loads.get(v) == 1 and \
                        len(uses) == 1:
                    class T(ast.NodeTransformer):
                        def visit_Name(self, node):
                            if node.id == v:
                                return ast.copy_location(a.value, node)
                            return node
                    b.test = T().visit(b.test)
                    del stmts[i]
                    continue
            # "explaining variable": v = <expr>; f(..., v, ...) with nothing
            # that could run between the two evaluations
            if isinstance(a, ast.Assign) and len(a.targets) == 1 and \
                    isinstance(a.targets[0], ast.Name) and \
                    isinstance(b, (ast.Expr, ast.Assign, ast.Return)) and \
                    isinstance(getattr(b, 'value', None), ast.Call):
                v = a.targets[0].id
                call = b.value
                if v not in ref_names and v not in ex and \
                        stores.get(v) == 1 and loads.get(v) == 1 and \
                        not _has_call(call.func):
                    slots = [(call.args, j) for j in range(len(call.args))]
                    done = False
                    for lst, j in slots:
                        arg = lst[j]
                        if isinstance(arg, ast.Name) and arg.id == v:
                            lst[j] = a.value
                            del stmts[i]
                            done = True
                            break
                        if _has_call(arg):
                            break
                    if not done and not any(_has_call(x_)
                                            for x_ in call.args):
                        for kw in call.keywords:
                            if isinstance(kw.value, ast.Name) and \
                                    kw.value.id == v:
                                kw.value = a.value
                                del stmts[i]
                                done = True
                                break
                            if _has_call(kw.value):
                                break
                    if done:
                        continue
            i += 1

    for x in ast.walk(fnode):
        for fld in ('body', 'orelse', 'finalbody'):
            seq = getattr(x, fld, None)
            if isinstance(seq, list) and seq and \
                    isinstance(seq[0], ast.stmt):
                fold(seq)
        if isinstance(x, ast.Try):
            for h in x.handlers:
                fold(h.body)
