"""Rule bookkeeping, evidence files, known findings, exit codes."""
import hashlib
import json
import os
import time

from mstatic.core import AnalysisError, Program, norm
from mstatic import cfg as cfgmod

VERIF = os.path.dirname(os.path.dirname(os.path.abspath(__file__)))


class Violation(object):
    def __init__(self, prop, rule, construct, msg, where):
        self.prop = prop
        self.rule = rule
        self.construct = construct
        self.msg = msg
        self.where = where

    def key(self):
        return '%s|%s|%s' % (self.prop, self.rule, self.construct)

    def as_dict(self):
        return {'property': self.prop, 'rule': self.rule,
                'construct': self.construct, 'message': self.msg,
                'where': self.where}


class RuleRun(object):
    def __init__(self, ctx, rid, title, template):
        self.ctx = ctx
        self.rid = rid
        self.title = title
        self.template = template
        self.instances = []     # (construct, verdict, note)
        self.violations = []
        self._floor = 1

    def ok(self, construct, note=''):
        self.instances.append((construct, 'ok', note))

    def fail(self, construct, msg, where=None):
        v = Violation(self.ctx.prop, self.rid, construct, msg, where or '')
        self.instances.append((construct, 'VIOLATION', msg))
        self.violations.append(v)

    def check(self, cond, construct, msg, where=None, note=''):
        if cond:
            self.ok(construct, note)
        else:
            self.fail(construct, msg, where)
        return cond

    def floor(self, n):
        self._floor = n

    def finish(self):
        if len(self.instances) < self._floor:
            raise AnalysisError(
                '%s.%s: only %d instance(s) found, floor is %d (%s) - the '
                'rule no longer matches the code it was written for'
                % (self.ctx.prop, self.rid, len(self.instances),
                   self._floor, self.title))


class Ctx(object):
    """Analysis context shared by the rules of one run."""

    def __init__(self, prop, tier='quick', repo='/repo', overlay=None,
                 prog=None, cg=None):
        self.prop = prop
        self.tier = tier
        self.repo = repo
        self.prog = prog or Program(repo, overlay)
        self._cg = cg
        self._sd = None
        self._cfgs = {}
        self.rules = []

    @property
    def cg(self):
        if self._cg is None:
            from mstatic.cg import CallGraph
            self._cg = CallGraph(self.prog)
        return self._cg

    @property
    def sd(self):
        if self._sd is None:
            from mstatic.statedom import StateDom
            self._sd = StateDom(self.prog)
        return self._sd

    def cfg(self, f):
        if isinstance(f, str):
            f = self.prog.func(f)
        c = self._cfgs.get(f.qname)
        if c is None:
            c = cfgmod.CFG(f.node)
            self._cfgs[f.qname] = c
        return c

    def rule(self, rid, title, template=''):
        r = RuleRun(self, rid, title, template)
        self.rules.append(r)
        return r

    def loc(self, f, node=None):
        return self.prog.loc(f, node)

    def construct(self, f, node=None, extra=None):
        q = f.qname if hasattr(f, 'qname') else str(f)
        s = q
        if node is not None:
            s += ' :: ' + norm(node)
        if extra:
            s += ' :: ' + extra
        return s


def load_known(path=None):
    path = path or os.path.join(VERIF, 'known_findings.json')
    if not os.path.exists(path):
        return []
    with open(path) as fh:
        return json.load(fh).get('findings', [])


def conclude(ctx, t0, out_dir=None, quiet=False, write=True,
             extra_coverage=None):
    """Finish all rules, write evidence, print verdict lines, return exit
    code."""
    out_dir = out_dir or os.path.join(VERIF, 'evidence')
    errs = list(getattr(ctx, 'analysis_errors', []) or [])
    for r in ctx.rules:
        try:
            r.finish()
        except AnalysisError as e:
            # an aborted stage leaves rules below their floor: only a
            # problem of its own when nothing else explains it
            if not errs:
                raise
            errs.append(e)
    for e in errs:
        print('ANALYSIS-ERROR property=%s %s' % (ctx.prop, e))
    known = [k for k in load_known() if k.get('status') == 'known']
    kmap = {'%s|%s|%s' % (k['property'], k['rule'], k['construct']): k
            for k in known}
    all_v = [v for r in ctx.rules for v in r.violations]
    new_v = [v for v in all_v if v.key() not in kmap]
    known_v = [v for v in all_v if v.key() in kmap]
    obligations = sum(len(r.instances) for r in ctx.rules)
    discharged = sum(1 for r in ctx.rules for i in r.instances
                     if i[1] == 'ok')
    distinct = len({(r.rid, i[0]) for r in ctx.rules for i in r.instances})
    lines = []
    for r in ctx.rules:
        nv = len(r.violations)
        lines.append('%s.%s [%s] %s: %d instance(s), %d ok, %d violation(s)'
                     % (ctx.prop, r.rid, r.template, r.title,
                        len(r.instances), len(r.instances) - nv, nv))
    if not quiet:
        for ln in lines:
            print(ln)
    samples = []
    for r in ctx.rules:
        for (c, verdict, note) in r.instances[:3]:
            samples.append({'rule': r.rid, 'construct': c,
                            'verdict': verdict, 'note': note})
    for v in all_v:
        samples.append({'rule': v.rule, 'construct': v.construct,
                        'verdict': 'known-finding' if v.key() in kmap
                        else 'VIOLATION', 'note': v.msg, 'where': v.where})
    rc = 0
    for v in known_v:
        print('KNOWN-FINDING: property=%s %s.%s %s -- %s'
              % (ctx.prop, ctx.prop, v.rule, v.construct,
                 kmap[v.key()].get('what', v.msg)))
    if new_v:
        rc = 1
        rdir = os.path.join(out_dir, 'replay')
        os.makedirs(rdir, exist_ok=True)
        for v in new_v:
            h = hashlib.sha1(v.key().encode()).hexdigest()[:12]
            path = os.path.join(rdir, '%s-%s-%s.json' % (ctx.prop, v.rule, h))
            if write:
                with open(path, 'w') as fh:
                    json.dump(v.as_dict(), fh, indent=1)
            print('%s: %s.%s: %s -- %s' % (v.where, ctx.prop, v.rule,
                                          v.construct, v.msg))
            print('VIOLATION property=%s replay=%s' % (ctx.prop, path))
    cov = {
        'explanation': (
            'Static necessary-condition check: %d rule(s) evaluated on the '
            'AST / control-flow graph / call graph of /repo as parsed on '
            'this run; a pass means the mechanisms the property relies on '
            'are structurally intact on every path, not that the behaviour '
            'was observed.' % len(ctx.rules)),
        'obligations': obligations,
        'discharged': discharged,
        'evaluations': obligations,
        'distinct_nontrivial': distinct,
        'rule': ('one evaluation = one rule instance (a guard, call site, '
                 'query, table entry) located by role in the current '
                 'source; distinct = distinct (rule, construct) pairs'),
        'samples': samples[:60],
        'decision_table_valuations': getattr(ctx, 'stats', {}).get(
            'decision_table_valuations', 0),
        'decision_tables': getattr(ctx, 'stats', {}).get(
            'decision_tables', []),
        'rules': [{'id': r.rid, 'template': r.template, 'title': r.title,
                   'instances': len(r.instances),
                   'violations': len(r.violations)} for r in ctx.rules],
        'checker_cmd': './check %s %s' % (ctx.prop, ctx.tier),
        'trusted_base': [
            'CPython ast parser',
            'mstatic resolver / CFG / dominators / state-domain evaluator',
            'library semantics taken from reading (oslo_db update_on_match,'
            ' mistral_lib merge_dicts, SQLAlchemy filter conjunction)'],
        'analysed': {
            'repo': ctx.repo,
            'modules': len(ctx.prog.modules),
            'functions': len(ctx.prog.funcs),
            'classes': len(ctx.prog.classes),
            'source_digest': ctx.prog.digest(),
        },
        'known_findings_reported': [v.key() for v in known_v],
        'exhaustive': False,
    }
    if ctx._cg is not None:
        cov['analysed']['call_graph'] = ctx.cg.summary()
    if extra_coverage:
        cov.update(extra_coverage)
    ev = {
        'property_id': ctx.prop,
        'tier': ctx.tier,
        'seed': int(os.environ.get('VERIF_SEED', '0') or 0),
        'level': 'other',
        'coverage': cov,
        'assumptions': [
            'receiver types are inferred (no type checker available)',
            'test code, alembic migrations, devstack/rally files are out of '
            'scope',
            'clauses that quantify over runtime values / schedules are not '
            'decided (see MANIFEST level_note and DESIGN.md section 5)'],
        'wall_s': round(time.time() - t0, 3),
        'violations': len(new_v),
    }
    if write:
        os.makedirs(out_dir, exist_ok=True)
        with open(os.path.join(out_dir, '%s.json' % ctx.prop), 'w') as fh:
            json.dump(ev, fh, indent=1, sort_keys=True)
    if not quiet:
        print('%s %s: %d obligations, %d discharged, %d known finding(s), '
              '%d new violation(s), %.2fs'
              % (ctx.prop, ctx.tier, obligations, discharged, len(known_v),
                 len(new_v), time.time() - t0))
    return rc
