"""Loader, name resolution and constant folding for the mistral source tree.

Nothing from mistral is imported or executed: every fact comes from `ast`.
"""
import ast
import collections
import configparser
import hashlib
import os

EXCLUDE_DIRS = ('/tests', '/migration')


class AnalysisError(Exception):
    """The analysis itself is broken (anchor lost, floor not met): exit 2."""


class NotConst(Exception):
    pass


class Func(object):
    def __init__(self, qname, node, module, cls=None, parent=None):
        self.qname = qname
        self.node = node
        self.module = module
        self.cls = cls          # class qname or None
        self.parent = parent    # enclosing Func for nested defs
        self.decorators = [ast.unparse(d) for d in node.decorator_list]

    @property
    def name(self):
        return self.node.name

    @property
    def params(self):
        a = self.node.args
        return [x.arg for x in a.posonlyargs + a.args + a.kwonlyargs]

    def has_decorator(self, suffix):
        return any(d == suffix or d.endswith('.' + suffix) or
                   d.split('(')[0] == suffix or
                   d.split('(')[0].endswith('.' + suffix)
                   for d in self.decorators)

    def __repr__(self):
        return 'Func(%s)' % self.qname


def dotted(node):
    parts = []
    while isinstance(node, ast.Attribute):
        parts.append(node.attr)
        node = node.value
    if isinstance(node, ast.Name):
        parts.append(node.id)
        return '.'.join(reversed(parts))
    return None


def walk_no_defs(node, include_lambda=True):
    """Walk an AST without descending into nested function/class bodies."""
    todo = [node]
    first = True
    while todo:
        n = todo.pop()
        if not first and isinstance(n, (ast.FunctionDef, ast.AsyncFunctionDef,
                                        ast.ClassDef)):
            continue
        if not first and not include_lambda and isinstance(n, ast.Lambda):
            continue
        first = False
        yield n
        todo.extend(ast.iter_child_nodes(n))


def own_nodes(fnode):
    """All AST nodes of a function excluding nested def/class bodies."""
    out = []
    for c in ast.iter_child_nodes(fnode):
        out.extend(walk_no_defs_top(c))
    return out


def walk_no_defs_top(node):
    if isinstance(node, (ast.FunctionDef, ast.AsyncFunctionDef, ast.ClassDef)):
        return []
    return list(walk_no_defs(node))


def norm(node, limit=160):
    """Normalised one-line text of an AST node (line-number free key)."""
    try:
        s = ast.unparse(node)
    except Exception:
        s = type(node).__name__
    s = ' '.join(s.split())
    return s[:limit]


class Program(object):
    def __init__(self, root='/repo', overlay=None, normalise=True):
        self.root = root
        self.overlay = overlay or {}
        self.renamed_locals = {}   # qname -> {current name: reference name}
        self.modules = {}    # name -> ast.Module
        self.paths = {}      # name -> relative path
        self.sources = {}    # name -> source text
        self.imports = {}    # module -> {alias: dotted target}
        self.funcs = {}      # qname -> Func
        self.classes = {}    # qname -> ClassDef
        self.class_module = {}
        self.bases = {}
        self.subclasses = collections.defaultdict(set)
        self.module_assigns = {}   # module -> {name: value node (last)}
        self._const_cache = {}
        self._load()
        self._index()
        if normalise and os.environ.get('MSTATIC_NO_LOCALNAMES') != '1':
            self._normalise_locals()

    # ---- loading -------------------------------------------------------
    def _load(self):
        base = os.path.join(self.root, 'mistral')
        if not os.path.isdir(base):
            raise AnalysisError('no mistral package under %s' % self.root)
        for dp, dn, fn in os.walk(base):
            dn.sort()
            if any(x in dp for x in EXCLUDE_DIRS):
                continue
            for f in sorted(fn):
                if not f.endswith('.py'):
                    continue
                p = os.path.join(dp, f)
                rel = os.path.relpath(p, self.root)
                name = rel[:-3].replace('/', '.')
                if name.endswith('.__init__'):
                    name = name[:-9]
                src = self.overlay.get(rel)
                if src is None:
                    with open(p, encoding='utf-8') as fh:
                        src = fh.read()
                try:
                    self.modules[name] = ast.parse(src, rel)
                except SyntaxError as e:
                    raise AnalysisError('cannot parse %s: %s' % (rel, e))
                self.paths[name] = rel
                self.sources[name] = src
        for rel, src in self.overlay.items():
            name = rel[:-3].replace('/', '.')
            if name.endswith('.__init__'):
                name = name[:-9]
            if name not in self.modules and rel.startswith('mistral/') and \
                    not any(x in '/' + rel for x in EXCLUDE_DIRS):
                self.modules[name] = ast.parse(src, rel)
                self.paths[name] = rel
                self.sources[name] = src

    def _normalise_locals(self):
        """Bring renamed locals back to their reference spelling (see
        mstatic/localnames.py): rules are written over the local names of
        the reference tree, a consistent renaming is not a change."""
        from mstatic import localnames
        table = localnames.load_table()
        if not table:
            return
        for q, f in self.funcs.items():
            if f.parent is not None:
                continue
            ren = localnames.normalise(q, f.node, table)
            if ren:
                self.renamed_locals[q] = ren

    def digest(self):
        h = hashlib.sha256()
        for m in sorted(self.sources):
            h.update(m.encode())
            h.update(self.sources[m].encode())
        return h.hexdigest()[:16]

    def _index(self):
        for m, tree in self.modules.items():
            imp = {}
            pkg = m if self.paths[m].endswith('__init__.py') else \
                m.rsplit('.', 1)[0]
            for n in ast.walk(tree):
                if isinstance(n, ast.Import):
                    for a in n.names:
                        if a.asname:
                            imp[a.asname] = a.name
                        else:
                            top = a.name.split('.')[0]
                            imp.setdefault(top, top)
                elif isinstance(n, ast.ImportFrom):
                    modname = n.module or ''
                    if n.level:
                        parts = pkg.split('.')
                        parts = parts[:len(parts) - (n.level - 1)]
                        modname = '.'.join(parts + ([modname] if modname
                                                    else []))
                    for a in n.names:
                        imp[a.asname or a.name] = modname + '.' + a.name
            self.imports[m] = imp
            self.module_assigns[m] = {}
            self._index_body(m, tree.body, m, None, None)
        for c, node in self.classes.items():
            m = self.class_module[c]
            bs = []
            for b in node.bases:
                d = dotted(b)
                if d is None:
                    continue
                r = self.resolve_dotted(m, d)
                bs.append(r if r in self.classes else d)
            self.bases[c] = bs
        for c, bs in self.bases.items():
            for b in bs:
                if b in self.classes:
                    self.subclasses[b].add(c)

    def _index_body(self, m, body, prefix, cls, parent):
        for n in body:
            if isinstance(n, (ast.FunctionDef, ast.AsyncFunctionDef)):
                q = prefix + '.' + n.name
                f = Func(q, n, m, cls, parent)
                self.funcs[q] = f
                self._index_nested(m, n, q, cls, f)
            elif isinstance(n, ast.ClassDef):
                q = prefix + '.' + n.name
                self.classes[q] = n
                self.class_module[q] = m
                self._index_body(m, n.body, q, q, None)
            elif isinstance(n, (ast.If, ast.Try, ast.With)):
                for field in ('body', 'orelse', 'finalbody'):
                    self._index_body(m, getattr(n, field, []) or [], prefix,
                                     cls, parent)
                for h in getattr(n, 'handlers', []) or []:
                    self._index_body(m, h.body, prefix, cls, parent)
            elif isinstance(n, ast.Assign) and cls is None and prefix == m:
                for t in n.targets:
                    if isinstance(t, ast.Name):
                        self.module_assigns[m][t.id] = n.value
            elif isinstance(n, ast.AnnAssign) and cls is None and \
                    prefix == m and isinstance(n.target, ast.Name) and \
                    n.value is not None:
                self.module_assigns[m][n.target.id] = n.value

    def _index_nested(self, m, fnode, q, cls, parent):
        for n in own_nodes_with_defs(fnode):
            if isinstance(n, (ast.FunctionDef, ast.AsyncFunctionDef)):
                nq = q + '.<locals>.' + n.name
                if nq not in self.funcs:
                    f = Func(nq, n, m, cls, parent)
                    self.funcs[nq] = f
                    self._index_nested(m, n, nq, cls, f)

    # ---- lookups -------------------------------------------------------
    def func(self, qname):
        f = self.funcs.get(qname)
        if f is None:
            raise AnalysisError('anchor function not found: %s' % qname)
        return f

    def cls(self, qname):
        c = self.classes.get(qname)
        if c is None:
            raise AnalysisError('anchor class not found: %s' % qname)
        return c

    def module(self, name):
        m = self.modules.get(name)
        if m is None:
            raise AnalysisError('anchor module not found: %s' % name)
        return m

    def loc(self, qname_or_func, node=None):
        f = qname_or_func if isinstance(qname_or_func, Func) else \
            self.funcs.get(qname_or_func)
        if f is not None:
            path = self.paths[f.module]
            line = getattr(node, 'lineno', None) or f.node.lineno
            return '%s:%s' % (path, line)
        if qname_or_func in self.class_module:
            m = self.class_module[qname_or_func]
            line = getattr(node, 'lineno', None) or \
                self.classes[qname_or_func].lineno
            return '%s:%s' % (self.paths[m], line)
        if qname_or_func in self.paths:
            return '%s:%s' % (self.paths[qname_or_func],
                              getattr(node, 'lineno', 1))
        return str(qname_or_func)

    def funcs_in_module(self, m):
        return [f for f in self.funcs.values() if f.module == m]

    def methods_of(self, cls_q):
        pre = cls_q + '.'
        return [f for q, f in self.funcs.items()
                if q.startswith(pre) and '.' not in q[len(pre):]]

    # ---- resolution ----------------------------------------------------
    def resolve_dotted(self, m, d):
        parts = d.split('.')
        imp = self.imports.get(m, {})
        if parts[0] in imp:
            full = imp[parts[0]]
            if len(parts) > 1:
                full += '.' + '.'.join(parts[1:])
        else:
            full = m + '.' + d
        if full.startswith('mistral.db.v2.api.'):
            tail = full[len('mistral.db.v2.api.'):]
            alt = 'mistral.db.v2.sqlalchemy.api.' + tail
            if alt in self.funcs and full not in self.funcs:
                return alt
            if alt in self.funcs:
                # facade function that forwards to IMPL: prefer the impl
                return alt
        # re-exported names: follow one import hop in the target module
        if full not in self.funcs and full not in self.classes:
            mod, _, tail = full.rpartition('.')
            if mod in self.imports and tail in self.imports[mod]:
                alt = self.imports[mod][tail]
                if alt in self.funcs or alt in self.classes or \
                        alt in self.modules:
                    return alt
        return full

    def mro(self, c):
        """C3 linearisation restricted to repository classes (falls back to
        depth-first order when C3 fails)."""
        cache = self.__dict__.setdefault('_mro_cache', {})
        if c in cache:
            return cache[c]
        if c not in self.classes:
            return []
        cache[c] = [c]   # cycle guard
        bases = [b for b in self.bases.get(c, []) if b in self.classes]
        seqs = [list(self.mro(b)) for b in bases] + [list(bases)]
        out = [c]
        while any(seqs):
            seqs = [s for s in seqs if s]
            for s in seqs:
                cand = s[0]
                if not any(cand in t[1:] for t in seqs):
                    break
            else:
                cand = seqs[0][0]
            out.append(cand)
            seqs = [[x for x in s if x != cand] for s in seqs]
        seen = []
        for x in out:
            if x not in seen:
                seen.append(x)
        cache[c] = seen
        return seen

    def is_subclass(self, c, base):
        return base in self.mro(c)

    def all_subclasses(self, c):
        out = set()
        todo = [c]
        while todo:
            x = todo.pop()
            for s in self.subclasses.get(x, ()):
                if s not in out:
                    out.add(s)
                    todo.append(s)
        return out

    def lookup_method(self, c, name, with_overrides=True):
        res = set()
        for k in self.mro(c):
            q = k + '.' + name
            if q in self.funcs:
                res.add(q)
                break
        if with_overrides:
            for s in self.all_subclasses(c):
                q = s + '.' + name
                if q in self.funcs:
                    res.add(q)
        return res

    def class_attr(self, c, name):
        """Value node of a class-level assignment `name = ...` via MRO."""
        for k in self.mro(c):
            for n in self.classes[k].body:
                if isinstance(n, ast.Assign):
                    for t in n.targets:
                        if isinstance(t, ast.Name) and t.id == name:
                            return k, n.value
        return None, None

    # ---- constant folding ----------------------------------------------
    def const(self, module, name):
        key = (module, name)
        if key in self._const_cache:
            v = self._const_cache[key]
            if isinstance(v, NotConst):
                raise v
            return v
        self._const_cache[key] = NotConst('cyclic %s.%s' % key)
        try:
            node = self.module_assigns.get(module, {}).get(name)
            if node is None:
                imp = self.imports.get(module, {})
                if name in imp:
                    tgt = imp[name]
                    mod, _, tail = tgt.rpartition('.')
                    if mod in self.modules:
                        v = self.const(mod, tail)
                        self._const_cache[key] = v
                        return v
                raise NotConst('%s.%s not a module constant' % key)
            v = self.eval_const(module, node)
            self._const_cache[key] = v
            return v
        except NotConst as e:
            self._const_cache[key] = e
            raise

    def eval_const(self, module, e, env=None):
        env = env or {}
        ev = lambda x: self.eval_const(module, x, env)  # noqa: E731
        if isinstance(e, ast.Constant):
            return e.value
        if isinstance(e, ast.Name):
            if e.id in env:
                return env[e.id]
            if e.id in ('True', 'False', 'None'):
                return {'True': True, 'False': False, 'None': None}[e.id]
            return self.const(module, e.id)
        if isinstance(e, ast.Attribute):
            d = dotted(e)
            if d is None:
                raise NotConst(norm(e))
            full = self.resolve_dotted(module, d)
            mod, _, tail = full.rpartition('.')
            if mod in self.modules:
                return self.const(mod, tail)
            # class attribute constant
            if mod in self.classes:
                k, node = self.class_attr(mod, tail)
                if node is not None:
                    return self.eval_const(self.class_module[k], node)
            raise NotConst(d)
        if isinstance(e, ast.List):
            return [ev(x) for x in e.elts]
        if isinstance(e, ast.Tuple):
            return tuple(ev(x) for x in e.elts)
        if isinstance(e, ast.Set):
            return frozenset(ev(x) for x in e.elts)
        if isinstance(e, ast.Dict):
            out = {}
            for k, v in zip(e.keys, e.values):
                if k is None:
                    out.update(ev(v))
                else:
                    out[ev(k)] = ev(v)
            return out
        if isinstance(e, ast.BinOp):
            a, b = ev(e.left), ev(e.right)
            try:
                if isinstance(e.op, ast.Add):
                    return a + b
                if isinstance(e.op, ast.Sub):
                    if isinstance(a, (set, frozenset)):
                        return frozenset(a) - frozenset(b)
                    return a - b
                if isinstance(e.op, ast.BitOr):
                    if isinstance(a, (set, frozenset)):
                        return frozenset(a) | frozenset(b)
                    return a | b
                if isinstance(e.op, ast.BitAnd):
                    if isinstance(a, (set, frozenset)):
                        return frozenset(a) & frozenset(b)
                    return a & b
                if isinstance(e.op, ast.Mod):
                    return a % b
                if isinstance(e.op, ast.Mult):
                    return a * b
            except Exception as x:
                raise NotConst('%s: %s' % (norm(e), x))
            raise NotConst(norm(e))
        if isinstance(e, ast.UnaryOp):
            v = ev(e.operand)
            if isinstance(e.op, ast.USub):
                return -v
            if isinstance(e.op, ast.Not):
                return not v
            raise NotConst(norm(e))
        if isinstance(e, ast.JoinedStr):
            out = ''
            for v in e.values:
                if isinstance(v, ast.Constant):
                    out += str(v.value)
                elif isinstance(v, ast.FormattedValue):
                    out += str(ev(v.value))
            return out
        if isinstance(e, ast.Call):
            fn = dotted(e.func)
            if fn in ('set', 'frozenset', 'list', 'tuple', 'sorted') and \
                    not e.keywords:
                if not e.args:
                    return {'set': frozenset(), 'frozenset': frozenset(),
                            'list': [], 'tuple': (), 'sorted': []}[fn]
                v = ev(e.args[0])
                if fn in ('set', 'frozenset'):
                    return frozenset(v)
                if fn == 'list':
                    return list(v)
                if fn == 'sorted':
                    return sorted(v)
                return tuple(v)
            if fn == 'dict' and not e.args:
                return {k.arg: ev(k.value) for k in e.keywords}
            if fn and fn.endswith('.format') and \
                    isinstance(e.func, ast.Attribute):
                base = ev(e.func.value)
                return base.format(*[ev(a) for a in e.args],
                                   **{k.arg: ev(k.value)
                                      for k in e.keywords})
            if fn and fn.endswith('.copy') and not e.args:
                return ev(e.func.value)
            if fn and (fn == '_' or fn.endswith('._')) and e.args:
                return ev(e.args[0])
            raise NotConst(norm(e))
        if isinstance(e, ast.Subscript):
            base = ev(e.value)
            try:
                return base[ev(e.slice)]
            except NotConst:
                raise
            except Exception as x:
                raise NotConst('%s: %s' % (norm(e), x))
        if isinstance(e, ast.IfExp):
            return ev(e.body) if ev(e.test) else ev(e.orelse)
        raise NotConst(norm(e))

    def try_const(self, module, e, default=None, env=None):
        try:
            return self.eval_const(module, e, env)
        except NotConst:
            return default


def own_nodes_with_defs(fnode):
    """Nodes of fnode without descending into nested defs, but yielding the
    nested def nodes themselves."""
    out = []
    todo = list(ast.iter_child_nodes(fnode))
    while todo:
        n = todo.pop()
        out.append(n)
        if isinstance(n, (ast.FunctionDef, ast.AsyncFunctionDef,
                          ast.ClassDef)):
            continue
        todo.extend(ast.iter_child_nodes(n))
    return out


def entry_points(root='/repo'):
    out = {}
    pp = os.path.join(root, 'pyproject.toml')
    if os.path.exists(pp):
        try:
            import tomllib
            with open(pp, 'rb') as fh:
                d = tomllib.load(fh)
            for k, v in d.get('project', {}).get('entry-points', {}).items():
                out[k] = dict(v)
        except Exception:
            out = {}
    if out:
        return out
    cp = configparser.ConfigParser()
    cp.read(os.path.join(root, 'setup.cfg'))
    if cp.has_section('entry_points'):
        for k, v in cp.items('entry_points'):
            d = {}
            for line in v.strip().splitlines():
                if '=' in line:
                    a, b = line.split('=', 1)
                    d[a.strip()] = b.strip()
            out[k] = d
    return out
