"""Call graph with receiver inference and mistral's asynchronous hop edges."""
import ast
import collections

from mstatic.core import dotted, entry_points, own_nodes

NAME_HINTS = {
    'task': {'mistral.engine.tasks.Task'},
    'wf_spec': {'mistral.lang.v2.workflows.WorkflowSpec'},
    'task_spec': {'mistral.lang.v2.tasks.TaskSpec'},
    'wf_ctrl': {'mistral.workflow.base.WorkflowController'},
    'wf': {'mistral.engine.workflows.Workflow'},
}

RPC_PAIRS = {
    'mistral.rpc.clients.EngineClient':
        'mistral.engine.engine_server.EngineServer',
    'mistral.rpc.clients.ExecutorClient':
        'mistral.executors.executor_server.ExecutorServer',
    'mistral.rpc.clients.EventEngineClient':
        'mistral.event_engine.event_engine_server.EventEngineServer',
    'mistral.rpc.clients.NotifierClient':
        'mistral.notifiers.notification_server.NotificationServer',
}

# method names of builtin containers / strings / ORM objects: an attribute
# call with an uninferred receiver and one of these names is far more likely
# a dict/list/str/model operation than a call of the repository's method of
# the same name, so the method-name CHA fallback skips them
BUILTIN_METHOD_NAMES = {
    'update', 'get', 'items', 'keys', 'values', 'append', 'pop', 'copy',
    'add', 'remove', 'clear', 'extend', 'insert', 'format', 'join', 'split',
    'strip', 'encode', 'decode', 'setdefault', 'index', 'count', 'sort',
    'startswith', 'endswith', 'replace', 'lower', 'upper', 'read', 'write',
    'close', 'delete', 'save', 'filter', 'all', 'first', 'one', 'put',
    'start', 'stop', 'run', 'wait', 'set', 'reset', 'lock', 'find',
    'match', 'search', 'group', 'send', 'call', 'commit', 'rollback',
    'flush', 'refresh', 'execute', 'query', 'to_dict', 'validate',
}

# kinds of edges that stay inside the calling thread/transaction
SYNC_KINDS = ('call', 'ref', 'cha')
ALL_KINDS = None


class CallGraph(object):
    def __init__(self, prog, rounds=3):
        self.p = prog
        self.edges = collections.defaultdict(set)   # caller -> {(callee, kind)}
        self.redges = collections.defaultdict(set)
        self.sites = collections.defaultdict(list)  # caller -> [(call, tgts)]
        self.unresolved = collections.Counter()
        self.stats = collections.Counter()
        self.ret_types = {}
        self.attr_types = collections.defaultdict(set)
        self.param_types = collections.defaultdict(set)
        self.sched_sites = []   # (caller, path, arg keys, call node)
        self.rpc_sites = []     # (caller, name, kwargs, call node, kind)
        self.posttx_sites = []  # (caller, target qname or None, in_tx, call)
        self.eps = entry_points(prog.root)
        self._env_cache = {}
        self._method_index = collections.defaultdict(set)
        for q, f in prog.funcs.items():
            if f.cls and f.parent is None:
                self._method_index[f.name].add(q)
        self.factory_table = {
            'mistral.scheduler.base.get_system_scheduler':
                self._ep_classes('mistral.schedulers'),
            'mistral.rpc.clients.get_engine_client':
                {'mistral.rpc.clients.EngineClient'},
            'mistral.rpc.clients.get_executor_client':
                {'mistral.rpc.clients.ExecutorClient'},
            'mistral.rpc.clients.get_event_engine_client':
                {'mistral.rpc.clients.EventEngineClient'},
            'mistral.rpc.clients.get_notifier_client':
                {'mistral.rpc.clients.NotifierClient'},
            'mistral.executors.base.get_executor':
                self._ep_classes('mistral.executors'),
            'mistral.workflow.base.get_controller':
                {'mistral.workflow.base.WorkflowController'} |
                prog.all_subclasses('mistral.workflow.base.WorkflowController'),
            'mistral.notifiers.base.get_notifier':
                self._ep_classes('mistral.notifiers'),
            'mistral.notifiers.base.get_notification_publisher':
                self._ep_classes('mistral.notification.publishers'),
            'mistral.expressions.get_custom_functions': set(),
        }
        self.consts = self._module_str_consts()
        for i in range(rounds):
            self._env_cache = {}
            self._infer_returns()
            self._build()

    def _ep_classes(self, group):
        out = set()
        for _name, tgt in self.eps.get(group, {}).items():
            q = tgt.replace(':', '.')
            if q in self.p.classes:
                out.add(q)
        return out

    # -- type inference ------------------------------------------------
    def expr_types(self, f, env, node):
        p = self.p
        if isinstance(node, ast.Name):
            if node.id in env:
                return env[node.id]
            r = p.resolve_dotted(f.module, node.id)
            if r in p.classes:
                return {('cls', r)}
            return set()
        if isinstance(node, ast.Call):
            tgt = self.resolve_call_targets(f, env, node)
            out = set()
            for t, kind in tgt:
                if kind == 'ctor':
                    out.add(t)
                elif t in self.factory_table:
                    out |= self.factory_table[t]
                elif t in self.ret_types:
                    out |= self.ret_types[t]
            return out
        if isinstance(node, ast.Attribute):
            d = dotted(node)
            if d:
                r = p.resolve_dotted(f.module, d)
                if r in p.classes:
                    return {('cls', r)}
            base = self.expr_types(f, env, node.value)
            out = set()
            for b in base:
                if isinstance(b, str):
                    for k in p.mro(b):
                        out |= self.attr_types.get((k, node.attr), set())
                    # properties
                    for q in p.lookup_method(b, node.attr):
                        if p.funcs[q].has_decorator('property'):
                            out |= self.ret_types.get(q, set())
            return out
        if isinstance(node, ast.IfExp):
            return self.expr_types(f, env, node.body) | \
                self.expr_types(f, env, node.orelse)
        if isinstance(node, ast.BoolOp):
            out = set()
            for v in node.values:
                out |= self.expr_types(f, env, v)
            return out
        return set()

    def local_env(self, f):
        if f.qname in self._env_cache:
            return self._env_cache[f.qname]
        env = {}
        self._env_cache[f.qname] = env
        args = f.node.args.posonlyargs + f.node.args.args
        if f.cls and f.parent is None and args and \
                args[0].arg in ('self', 'cls'):
            a0 = args[0].arg
            if a0 == 'self':
                env[a0] = {f.cls}
            else:
                env[a0] = {('cls', f.cls)} | {
                    ('cls', s) for s in self.p.all_subclasses(f.cls)}
        if f.parent is not None:
            for k, v in self.local_env(f.parent).items():
                env.setdefault(k, v)
        for a in args + f.node.args.kwonlyargs:
            pt = self.param_types.get((f.qname, a.arg))
            if a.arg in ('self', 'cls') and a.arg in env:
                continue
            if pt:
                env[a.arg] = set(pt)
            elif a.arg in NAME_HINTS:
                env[a.arg] = set(NAME_HINTS[a.arg])
        nodes = own_nodes(f.node)
        for _ in range(2):
            for n in nodes:
                if isinstance(n, ast.Assign) and len(n.targets) == 1:
                    t = n.targets[0]
                    ty = self.expr_types(f, env, n.value)
                    if not ty:
                        continue
                    if isinstance(t, ast.Name):
                        env.setdefault(t.id, set()).update(ty)
                    elif isinstance(t, ast.Attribute) and \
                            isinstance(t.value, ast.Name) and \
                            t.value.id == 'self' and f.cls:
                        self.attr_types[(f.cls, t.attr)].update(
                            x for x in ty if isinstance(x, str))
                elif isinstance(n, (ast.For, ast.comprehension)):
                    # for x in <collection of classes>
                    it = n.iter
                    ty = self.expr_types(f, env, it)
                    tg = n.target
                    if ty and isinstance(tg, ast.Name):
                        env.setdefault(tg.id, set()).update(ty)
                elif isinstance(n, ast.With):
                    for i in n.items:
                        if isinstance(i.optional_vars, ast.Name):
                            ty = self.expr_types(f, env, i.context_expr)
                            if ty:
                                env.setdefault(i.optional_vars.id,
                                               set()).update(ty)
        return env

    def _infer_returns(self):
        for q, f in self.p.funcs.items():
            env = self.local_env(f)
            out = set()
            for n in own_nodes(f.node):
                if isinstance(n, ast.Return) and n.value is not None:
                    for t in self.expr_types(f, env, n.value):
                        if isinstance(t, str):
                            out.add(t)
            if out:
                self.ret_types[q] = self.ret_types.get(q, set()) | out

    # -- call resolution -------------------------------------------------
    def resolve_call_targets(self, f, env, call):
        p = self.p
        fn = call.func
        res = set()
        if isinstance(fn, ast.Name):
            g = f
            while g is not None:
                nq = g.qname + '.<locals>.' + fn.id
                if nq in p.funcs:
                    return {(nq, 'call')}
                g = g.parent
            if fn.id in env:
                for t in env[fn.id]:
                    if isinstance(t, tuple) and t[0] == 'cls':
                        res.add((t[1], 'ctor'))
                if res:
                    return res
            r = p.resolve_dotted(f.module, fn.id)
            if r in p.funcs:
                return {(r, 'call')}
            if r in p.classes:
                return {(r, 'ctor')}
            return res
        if isinstance(fn, ast.Attribute):
            d = dotted(fn)
            if d and not d.startswith('self.') and not d.startswith('cls.'):
                head = d.split('.')[0]
                if head not in env:
                    r = p.resolve_dotted(f.module, d)
                    if r in p.funcs:
                        return {(r, 'call')}
                    if r in p.classes:
                        return {(r, 'ctor')}
            if isinstance(fn.value, ast.Call) and \
                    isinstance(fn.value.func, ast.Name) and \
                    fn.value.func.id == 'super' and f.cls:
                for k in p.mro(f.cls)[1:]:
                    q = k + '.' + fn.attr
                    if q in p.funcs:
                        return {(q, 'call')}
                return res
            recv = self.expr_types(f, env, fn.value)
            for t in recv:
                if isinstance(t, str):
                    for q in p.lookup_method(t, fn.attr):
                        res.add((q, 'call'))
                elif isinstance(t, tuple) and t[0] == 'cls':
                    for q in p.lookup_method(t[1], fn.attr, False):
                        res.add((q, 'call'))
            return res
        return res

    def add(self, a, b, kind):
        self.edges[a].add((b, kind))
        self.redges[b].add((a, kind))

    def _build(self):
        p = self.p
        self.edges.clear()
        self.redges.clear()
        self.sites.clear()
        self.unresolved.clear()
        self.stats.clear()
        self.sched_sites = []
        self.rpc_sites = []
        self.posttx_sites = []
        for q, f in p.funcs.items():
            env = self.local_env(f)
            if f.parent is not None:
                # a nested def is assumed to be called by its parent
                self.add(f.parent.qname, q, 'nested')
            for n in own_nodes(f.node):
                if not isinstance(n, ast.Call):
                    continue
                self.stats['calls'] += 1
                tg = self.resolve_call_targets(f, env, n)
                kind_used = 'resolved'
                if not tg and isinstance(n.func, ast.Attribute):
                    # method-name CHA fallback
                    cands = self._method_index.get(n.func.attr, ())
                    if n.func.attr in BUILTIN_METHOD_NAMES:
                        cands = ()
                    if 0 < len(cands) <= 12 and not self._external_recv(
                            f, env, n.func):
                        tg = {(c, 'cha') for c in cands}
                        kind_used = 'cha'
                targets = set()
                for t, kind in tg:
                    if kind == 'ctor':
                        init = p.lookup_method(t, '__init__', False)
                        for i in init:
                            self.add(q, i, 'call')
                            targets.add(i)
                            self._propagate(f, env, n, i)
                        targets.add(t)
                    else:
                        self.add(q, t, 'cha' if kind == 'cha' else 'call')
                        targets.add(t)
                        if kind != 'cha':
                            self._propagate(f, env, n, t)
                if tg:
                    self.stats[kind_used] += 1
                else:
                    d = dotted(n.func) or ast.unparse(n.func)[:40]
                    self.unresolved[d] += 1
                self.sites[q].append((n, targets))
                # address-taken function references among the arguments
                for a in list(n.args) + [k.value for k in n.keywords]:
                    for t, _k in self._func_ref(f, env, a):
                        self.add(q, t, 'ref')
                self._hops(q, f, env, n)

    def _external_recv(self, f, env, fn):
        """True when the receiver is clearly a third-party/builtin object
        (module alias not under mistral)."""
        d = dotted(fn.value)
        if d:
            head = d.split('.')[0]
            imp = self.p.imports.get(f.module, {})
            if head in imp and head not in env:
                full = imp[head]
                if not full.startswith('mistral'):
                    return True
        return False

    def _hops(self, q, f, env, n):
        p = self.p
        d = dotted(n.func)
        if d and d.endswith('register_operation') and n.args:
            in_tx = any(k.arg == 'in_tx' and
                        isinstance(k.value, ast.Constant) and
                        k.value.value for k in n.keywords)
            refs = self._func_ref(f, env, n.args[0])
            for t, _k in refs:
                self.add(q, t, 'post_tx_in' if in_tx else 'post_tx')
            self.posttx_sites.append(
                (q, sorted(t for t, _k in refs), in_tx, n))
        if d and d.split('.')[-1] == 'SchedulerJob':
            path = None
            args = None
            for k in n.keywords:
                if k.arg == 'func_name':
                    path = self._const_str(f, k.value)
                if k.arg == 'func_args' and isinstance(k.value, ast.Dict):
                    args = [x.value for x in k.value.keys
                            if isinstance(x, ast.Constant)]
            self.sched_sites.append((q, path, args, n))
            if path and path in p.funcs:
                self.add(q, path, 'sched')
        is_rpc = isinstance(n.func, ast.Attribute) and \
            n.func.attr in ('sync_call', 'async_call')
        rpc_kind = n.func.attr if is_rpc else None
        if not is_rpc and isinstance(n.func, ast.Name):
            for a in own_nodes(f.node):
                if isinstance(a, ast.Assign) and len(a.targets) == 1 and \
                        isinstance(a.targets[0], ast.Name) and \
                        a.targets[0].id == n.func.id:
                    txt = ast.unparse(a.value)
                    if 'sync_call' in txt or 'async_call' in txt:
                        is_rpc = True
                        rpc_kind = 'either'
        if is_rpc:
            if len(n.args) >= 2 and isinstance(n.args[1], ast.Constant):
                name = n.args[1].value
                kws = [k.arg for k in n.keywords]
                self.rpc_sites.append((q, name, kws, n, rpc_kind))
                srv = None
                if f.cls:
                    for k in p.mro(f.cls):
                        if k in RPC_PAIRS:
                            srv = RPC_PAIRS[k]
                if srv:
                    t = srv + '.' + name
                    if t in p.funcs:
                        self.add(q, t, 'rpc')
        if d and (d.endswith('threading.Thread') or d == 'Thread' or
                  d.endswith('.submit') or d.endswith('spawn')):
            cands = [k.value for k in n.keywords if k.arg == 'target']
            if d.endswith('.submit') or d.endswith('spawn'):
                cands += n.args[:1]
            for c in cands:
                for t, _k in self._func_ref(f, env, c):
                    self.add(q, t, 'thread')

    def _func_ref(self, f, env, node):
        p = self.p
        if isinstance(node, ast.Name):
            g = f
            while g is not None:
                nq = g.qname + '.<locals>.' + node.id
                if nq in p.funcs:
                    return {(nq, 'ref')}
                g = g.parent
            if node.id in env:
                return set()
            r = p.resolve_dotted(f.module, node.id)
            if r in p.funcs:
                return {(r, 'ref')}
        elif isinstance(node, ast.Attribute):
            d = dotted(node)
            if d and d.startswith('self.') and f.cls and d.count('.') == 1:
                return {(x, 'ref') for x in
                        p.lookup_method(f.cls, node.attr)}
            if d:
                r = p.resolve_dotted(f.module, d)
                if r in p.funcs:
                    return {(r, 'ref')}
        elif isinstance(node, ast.Call):
            # functools.partial(f, ...) / decorator(f)
            out = set()
            for a in node.args[:1]:
                out |= self._func_ref(f, env, a)
            return out
        return set()

    def _module_str_consts(self):
        out = {}
        for m in self.p.modules:
            for name in self.p.module_assigns.get(m, {}):
                try:
                    v = self.p.const(m, name)
                except Exception:
                    continue
                if isinstance(v, str):
                    out[m + '.' + name] = v
        return out

    def _const_str(self, f, node):
        v = self.p.try_const(f.module, node)
        return v if isinstance(v, str) else None

    def _propagate(self, f, env, call, target):
        tf = self.p.funcs.get(target)
        if tf is None:
            return
        params = [a.arg for a in tf.node.args.posonlyargs + tf.node.args.args]
        off = 1 if tf.cls and tf.parent is None and params and \
            params[0] in ('self', 'cls') and \
            not tf.has_decorator('staticmethod') else 0
        for i, a in enumerate(call.args):
            if isinstance(a, ast.Starred):
                break
            if i + off < len(params):
                ty = {t for t in self.expr_types(f, env, a)
                      if isinstance(t, str)}
                if ty:
                    self.param_types[(target, params[i + off])] |= ty
        allp = params + [a.arg for a in tf.node.args.kwonlyargs]
        for k in call.keywords:
            if k.arg and k.arg in allp:
                ty = {t for t in self.expr_types(f, env, k.value)
                      if isinstance(t, str)}
                if ty:
                    self.param_types[(target, k.arg)] |= ty

    # -- queries -----------------------------------------------------------
    def callees(self, q, kinds=SYNC_KINDS + ('nested',)):
        return {c for c, k in self.edges.get(q, ())
                if kinds is None or k in kinds}

    def callers(self, q, kinds=SYNC_KINDS + ('nested',)):
        return {c for c, k in self.redges.get(q, ())
                if kinds is None or k in kinds}

    def reach_backward(self, targets, stop=lambda q: False,
                       kinds=SYNC_KINDS + ('nested',)):
        seen = set(targets)
        todo = list(targets)
        while todo:
            x = todo.pop()
            for (c, kind) in self.redges.get(x, ()):
                if kinds is not None and kind not in kinds:
                    continue
                if c in seen:
                    continue
                seen.add(c)
                if stop(c):
                    continue
                todo.append(c)
        return seen

    def reach_forward(self, roots, kinds=SYNC_KINDS + ('nested',),
                      stop=lambda q: False, parents=None):
        seen = set(roots)
        todo = list(roots)
        while todo:
            x = todo.pop()
            if stop(x) and x not in roots:
                continue
            for (c, kind) in self.edges.get(x, ()):
                if kinds is not None and kind not in kinds:
                    continue
                if c not in seen:
                    seen.add(c)
                    if parents is not None:
                        parents[c] = (x, kind)
                    todo.append(c)
        return seen

    def path(self, parents, root_set, target):
        out = [target]
        cur = target
        while cur not in root_set and cur in parents:
            cur = parents[cur][0]
            out.append(cur)
        return list(reversed(out))

    def call_targets(self, caller_q, call_node):
        for n, tg in self.sites.get(caller_q, ()):
            if n is call_node:
                return tg
        return set()

    def calls_to(self, target_pred):
        """All (caller qname, call node, targets) whose resolved targets
        satisfy target_pred(qname)."""
        out = []
        for q, lst in self.sites.items():
            for n, tg in lst:
                if any(target_pred(t) for t in tg):
                    out.append((q, n, tg))
        return out

    def summary(self):
        return {
            'call_sites': self.stats['calls'],
            'resolved_to_repo': self.stats['resolved'],
            'resolved_by_method_name_cha': self.stats['cha'],
            'edges': sum(len(v) for v in self.edges.values()),
            'scheduler_job_sites': len(self.sched_sites),
            'rpc_sites': len(self.rpc_sites),
            'post_tx_sites': len(self.posttx_sites),
        }
