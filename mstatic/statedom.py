"""Finite-domain abstract interpreter over mistral's state constants.

The predicates of mistral/workflow/states.py are *interpreted from their
source* on every run (no meaning is hard-coded here).  A forward dataflow
over a function's CFG carries a set of joint valuations of a few tracked
variables (state-valued access paths and boolean flags); branch edges filter
the valuations with a three-valued (Kleene) evaluation of the test, so the
result over-approximates the valuations that can reach each node.
"""
import ast
import itertools

from mstatic.core import dotted, NotConst


class _Unk(object):
    def __repr__(self):
        return 'UNK'

    def __bool__(self):
        raise TypeError('UNK has no truth value')


UNK = _Unk()


class _Raises(object):
    """Evaluation of the expression raises (e.g. KeyError on a folded
    table): control reaches neither branch of a test."""

    def __repr__(self):
        return 'RAISES'

    def __bool__(self):
        raise TypeError('RAISES has no truth value')


RAISES = _Raises()
OTHER = '<other>'     # any value outside the enumerated domain
OBJ = '<object>'      # some truthy value outside the enumerated domain

KILL_CALL_ATTRS = {
    'set_state', 'refresh', 'expire_all', 'update_workflow_execution_state',
    'update_task_execution_state',
}


def _unhoisted_test(n, keys):
    """`v = <cond>` immediately followed by `if v:` is evaluated as
    `if <cond>:` when v is not itself a tracked variable (the value was
    computed at the branch; giving it a name changes nothing)."""
    if len(n.pred) != 1:
        return n.ast
    prev = n.pred[0][0]
    if not (prev.kind == 'stmt' and isinstance(prev.ast, ast.Assign) and
            len(prev.ast.targets) == 1 and
            isinstance(prev.ast.targets[0], ast.Name)):
        return n.ast
    name = prev.ast.targets[0].id
    import re as _re
    word = _re.compile(r'(?<![\w.])%s(?![\w])' % _re.escape(name))
    if any(word.search(k) for k in keys) or not any(
            isinstance(x, ast.Name) and x.id == name
            for x in ast.walk(n.ast)):
        return n.ast
    # only a value that was named to be tested: the test is the name, its
    # negation or a boolean combination with it at the top level
    top = n.ast
    while isinstance(top, ast.UnaryOp) and isinstance(top.op, ast.Not):
        top = top.operand
    tops = top.values if isinstance(top, ast.BoolOp) else [top]
    if not any(isinstance(x, ast.Name) and x.id == name for x in tops):
        return n.ast
    cached = getattr(_unhoisted_test, 'cache', None)
    if cached is None:
        cached = _unhoisted_test.cache = {}
    key = (id(n.ast), id(prev.ast))
    if key in cached and cached[key][0] is n.ast:
        return cached[key][1]
    import copy as _copy

    class T(ast.NodeTransformer):
        def visit_Name(self, node):
            if node.id == name and isinstance(node.ctx, ast.Load):
                return ast.copy_location(_copy.deepcopy(prev.ast.value),
                                         node)
            return node
    new = ast.fix_missing_locations(T().visit(_copy.deepcopy(n.ast)))
    cached[key] = (n.ast, new)
    return new


class _FrozenDict(dict):
    """A dict value usable in a finite domain (hashable, still a dict for
    isinstance)."""
    def __hash__(self):
        return 7

    def __repr__(self):
        return '<dict>'


FDICT = _FrozenDict()


class Frame(object):
    def __init__(self, module, subst=None, parent=None, func=None):
        self.module = module
        self.subst = subst or {}     # local name -> (ast, Frame)
        self.parent = parent
        self.func = func             # Func being interpreted (or None)


class StateDom(object):
    def __init__(self, prog):
        self.p = prog
        self.smod = 'mistral.workflow.states'
        prog.module(self.smod)
        self.ALL = tuple(prog.const(self.smod, '_ALL'))
        self.consts = {}
        for name, node in prog.module_assigns[self.smod].items():
            try:
                v = prog.const(self.smod, name)
            except NotConst:
                continue
            if isinstance(v, str):
                self.consts[name] = v
        self.by_value = {v: k for k, v in self.consts.items()}
        self.transitions = prog.const(self.smod, '_VALID_TRANSITIONS')
        self.state_domain = self.ALL + (None,)
        self._depth = 0
        self._textkeys = False
        self._ghost = set()
        self._alias = {}
        self._textcache = {}

    def _text(self, e, frame):
        if frame.parent is not None:
            return None
        t = self._textcache.get(id(e))
        if t is None:
            t = ' '.join(ast.unparse(e).split())
            self._textcache[id(e)] = (t, e)
            return t
        return t[0]

    def const_state(self, e):
        """Value of a state constant expression (`states.X`, a bare imported
        name of the states module, or a string literal); None otherwise."""
        if isinstance(e, ast.Constant) and isinstance(e.value, str):
            return e.value
        if isinstance(e, ast.Attribute) and isinstance(e.value, ast.Name) \
                and e.value.id in ('states', 'wf_states') and \
                e.attr in self.consts:
            return self.consts[e.attr]
        if isinstance(e, ast.Name) and e.id in self.consts and \
                e.id.isupper():
            return self.consts[e.id]
        return None

    # ---- predicate folding -------------------------------------------
    def pred_set(self, name):
        """States for which states.<name>(s) is True."""
        f = self.p.func(self.smod + '.' + name)
        out = set()
        for s in self.ALL:
            r = self.interp(f, [ast.Constant(s)], {}, Frame(self.smod), {})
            if r is True:
                out.add(s)
        return frozenset(out)

    def valid_transition(self, a, b):
        f = self.p.func(self.smod + '.is_valid_transition')
        return self.interp(f, [ast.Constant(a), ast.Constant(b)], {},
                           Frame(self.smod), {})

    # ---- three-valued expression evaluation ----------------------------
    def canon(self, e, frame):
        """Dotted text of an access path in top-frame terms, or None."""
        d = dotted(e)
        if d is None:
            return None
        root, _, rest = d.partition('.')
        fr = frame
        while fr is not None and root in fr.subst:
            sub, sfr = fr.subst[root]
            sd = dotted(sub)
            if sd is None:
                return None
            d = sd + ('.' + rest if rest else '')
            root, _, rest = d.partition('.')
            fr = sfr
        if fr is not None and fr.parent is not None:
            # a callee-local name that is not a parameter
            return None
        return d

    def truth(self, v):
        if v is RAISES:
            return RAISES
        if v is UNK:
            return UNK
        if isinstance(v, str) and v == OTHER:
            return UNK
        return bool(v)

    def ev(self, e, env, frame):
        """Value of expression e: a concrete python value or UNK."""
        if isinstance(e, ast.Constant):
            return e.value
        if self._textkeys and isinstance(e, ast.Compare):
            k = self._text(e, frame)
            if k is not None and self._alias.get(k, k) in env:
                return env[self._alias.get(k, k)]
            # the complementary spelling of a tracked comparison
            # (`a not in b` when `a in b` is an input, `!=` / `==`, ...)
            if k is not None and len(e.ops) == 1 and \
                    type(e.ops[0]) in _COMPLEMENT:
                alt = ast.Compare(left=e.left,
                                  ops=[_COMPLEMENT[type(e.ops[0])]()],
                                  comparators=e.comparators)
                ak = ' '.join(ast.unparse(alt).split())
                ak = self._alias.get(ak, ak)
                if ak in env and isinstance(env[ak], bool):
                    return not env[ak]
        if self._textkeys and isinstance(e, ast.Attribute) and \
                dotted(e) is None:
            k = self._text(e, frame)
            if k is not None and self._alias.get(k, k) in env:
                return env[self._alias.get(k, k)]
        if isinstance(e, (ast.Name, ast.Attribute)):
            if isinstance(e, ast.Name) and e.id in frame.subst:
                sub, sfr = frame.subst[e.id]
                return self.ev(sub, env, sfr)
            key = self.canon(e, frame)
            if key is not None and key in env:
                return env[key]
            if isinstance(e, ast.Name) and e.id in ('True', 'False', 'None'):
                return {'True': True, 'False': False, 'None': None}[e.id]
            try:
                return self.p.eval_const(frame.module, e)
            except NotConst:
                pass
            # property access on self with single-return body
            if isinstance(e, ast.Attribute):
                r = self._property(e, env, frame)
                if r is not UNK:
                    return r
            return UNK
        if isinstance(e, (ast.List, ast.Tuple, ast.Set)):
            vals = [self.ev(x, env, frame) for x in e.elts]
            return vals
        if isinstance(e, ast.UnaryOp) and isinstance(e.op, (ast.USub,
                                                             ast.UAdd)):
            v = self.ev(e.operand, env, frame)
            if v is RAISES:
                return RAISES
            if _num(v):
                return -v if isinstance(e.op, ast.USub) else v
            return UNK
        if isinstance(e, ast.UnaryOp) and isinstance(e.op, ast.Not):
            t = self.truth(self.ev(e.operand, env, frame))
            if t is RAISES:
                return RAISES
            return UNK if t is UNK else (not t)
        if isinstance(e, ast.BoolOp):
            ts = []
            for v in e.values:
                t = self.truth(self.ev(v, env, frame))
                if t is RAISES:
                    # reached only if the earlier operands did not decide
                    if isinstance(e.op, ast.And) and any(
                            x is False for x in ts):
                        break
                    if isinstance(e.op, ast.Or) and any(
                            x is True for x in ts):
                        break
                    if any(x is UNK for x in ts):
                        ts.append(UNK)
                        break
                    return RAISES
                ts.append(t)
            if isinstance(e.op, ast.And):
                if any(t is False for t in ts):
                    return False
                if any(t is UNK for t in ts):
                    return UNK
                return True
            if any(t is True for t in ts):
                return True
            if any(t is UNK for t in ts):
                return UNK
            return False
        if isinstance(e, ast.Compare) and len(e.ops) == 1:
            a = self.ev(e.left, env, frame)
            b = self.ev(e.comparators[0], env, frame)
            op = e.ops[0]
            return self._compare(a, op, b)
        if isinstance(e, ast.BinOp) and isinstance(
                e.op, (ast.BitOr, ast.BitAnd)):
            # `flag |= test` on booleans
            a = self.ev(e.left, env, frame)
            b = self.ev(e.right, env, frame)
            if a is RAISES or b is RAISES:
                return RAISES
            if isinstance(a, bool) and isinstance(b, bool):
                return (a or b) if isinstance(e.op, ast.BitOr) else (a and b)
            return UNK
        if isinstance(e, ast.BinOp) and isinstance(
                e.op, (ast.Add, ast.Sub, ast.Mult)):
            # small-integer arithmetic (count / capacity decision tables)
            a = self.ev(e.left, env, frame)
            b = self.ev(e.right, env, frame)
            if a is RAISES or b is RAISES:
                return RAISES
            if _num(a) and _num(b):
                if isinstance(e.op, ast.Add):
                    return a + b
                if isinstance(e.op, ast.Sub):
                    return a - b
                return a * b
            return UNK
        if isinstance(e, ast.IfExp):
            t = self.truth(self.ev(e.test, env, frame))
            if t is RAISES:
                return RAISES
            if t is UNK:
                x = self.ev(e.body, env, frame)
                y = self.ev(e.orelse, env, frame)
                return x if (x is not UNK and y is not UNK and x == y) \
                    else UNK
            return self.ev(e.body if t else e.orelse, env, frame)
        if self._textkeys and (isinstance(e, (ast.Call, ast.Subscript,
                                              ast.Compare)) or (
                isinstance(e, ast.Attribute) and dotted(e) is None)):
            k = self._text(e, frame)
            if k is not None:
                k = self._alias.get(k, k)
                if k in env:
                    return env[k]
        if isinstance(e, ast.Call):
            return self._call(e, env, frame)
        if isinstance(e, ast.Subscript):
            base = self.ev(e.value, env, frame)
            idx = self.ev(e.slice, env, frame)
            if base is RAISES or idx is RAISES:
                return RAISES
            if base is UNK or idx is UNK or _is(idx, (OTHER, OBJ)):
                return UNK
            try:
                return base[idx]
            except (KeyError, IndexError):
                return RAISES
            except Exception:
                return UNK
        return UNK

    def _compare(self, a, op, b):
        if a is RAISES or b is RAISES:
            return RAISES
        if isinstance(op, (ast.Is, ast.IsNot, ast.Eq, ast.NotEq)):
            if a is UNK or b is UNK:
                return UNK
            oth = (OTHER, OBJ)
            if _is(a, oth) or _is(b, oth):
                # OTHER differs from every enumerated value; two OTHERs
                # are incomparable
                if _is(a, oth) and _is(b, oth):
                    return UNK
                r = False
            else:
                r = (a == b)
            return r if isinstance(op, (ast.Is, ast.Eq)) else (not r)
        if isinstance(op, (ast.In, ast.NotIn)):
            if a is UNK or b is UNK:
                return UNK
            if isinstance(b, dict):
                b = list(b)
            if not isinstance(b, (list, tuple, set, frozenset, str)):
                return UNK
            if isinstance(b, str):
                if not isinstance(a, str) or a == OTHER:
                    return UNK
                r = a in b
                return r if isinstance(op, ast.In) else (not r)
            if any(x is UNK for x in b):
                if not _is(a, (OTHER, OBJ)) and \
                        any(x is not UNK and x == a for x in b):
                    r = True
                else:
                    return UNK
            elif _is(a, (OTHER, OBJ)):
                r = False
            else:
                try:
                    r = a in b
                except TypeError:
                    return UNK
            return r if isinstance(op, ast.In) else (not r)
        if isinstance(op, (ast.Lt, ast.LtE, ast.Gt, ast.GtE)):
            if _num(a) and _num(b):
                if isinstance(op, ast.Lt):
                    return a < b
                if isinstance(op, ast.LtE):
                    return a <= b
                if isinstance(op, ast.Gt):
                    return a > b
                return a >= b
            return UNK
        return UNK

    def _resolve_callee(self, e, frame):
        p = self.p
        fn = e.func
        d = dotted(fn)
        if d is None:
            return None, None
        parts = d.split('.')
        # self.m() / recv.m() where frame.func gives the class
        if len(parts) >= 2:
            recv = fn.value
            # module function
            r = p.resolve_dotted(frame.module, d)
            if r in p.funcs and p.funcs[r].cls is None:
                return p.funcs[r], None
            cls = self._recv_class(recv, frame)
            if cls:
                qs = p.lookup_method(cls, fn.attr, with_overrides=False)
                if len(qs) == 1:
                    return p.funcs[next(iter(qs))], recv
            return None, None
        r = p.resolve_dotted(frame.module, d)
        if r in p.funcs and p.funcs[r].cls is None:
            return p.funcs[r], None
        return None, None

    def _recv_class(self, recv, frame):
        """Class of a receiver expression, only for `self` (possibly
        through frames)."""
        if isinstance(recv, ast.Name):
            fr = frame
            name = recv.id
            while fr is not None and name in fr.subst:
                sub, sfr = fr.subst[name]
                if not isinstance(sub, ast.Name):
                    return None
                name, fr = sub.id, sfr
            if name == 'self' and fr is not None and fr.func is not None:
                return fr.func.cls
            if fr is not None and fr.parent is None and \
                    name in getattr(self, '_types', {}):
                return self._types[name]
        return None

    def _property(self, e, env, frame):
        cls = self._recv_class(e.value, frame)
        if not cls:
            return UNK
        qs = self.p.lookup_method(cls, e.attr, with_overrides=False)
        if len(qs) != 1:
            return UNK
        f = self.p.funcs[next(iter(qs))]
        if not f.has_decorator('property'):
            return UNK
        return self.interp(f, [], env, frame, {}, recv=e.value)

    _ISINSTANCE = {'int': int, 'str': str, 'dict': dict, 'list': list,
                   'tuple': tuple, 'bool': bool, 'float': float}

    def _call(self, e, env, frame):
        if e.keywords and any(k.arg is None for k in e.keywords):
            return UNK
        if isinstance(e.func, ast.Name) and e.func.id == 'len' and \
                len(e.args) == 1 and not e.keywords and \
                'len' not in frame.subst:
            v = self.ev(e.args[0], env, frame)
            if v is RAISES:
                return RAISES
            if isinstance(v, (tuple, list, dict, set, frozenset)) or (
                    isinstance(v, str) and not _is(v, (OTHER, OBJ))):
                if isinstance(v, (list, tuple)) and any(x is UNK for x in v):
                    return UNK
                return len(v)
            return UNK
        if isinstance(e.func, ast.Name) and e.func.id == 'isinstance' and \
                len(e.args) == 2 and not e.keywords and \
                e.func.id not in frame.subst:
            v = self.ev(e.args[0], env, frame)
            ts = e.args[1].elts if isinstance(e.args[1], ast.Tuple) \
                else [e.args[1]]
            if v is RAISES:
                return RAISES
            if v is not UNK and not _is(v, (OTHER, OBJ)) and all(
                    isinstance(t, ast.Name) and t.id in self._ISINSTANCE
                    for t in ts):
                return isinstance(v, tuple(self._ISINSTANCE[t.id]
                                           for t in ts))
            return UNK
        f, recv = self._resolve_callee(e, frame)
        if f is None:
            return UNK
        kw = {k.arg: k.value for k in e.keywords}
        return self.interp(f, list(e.args), env, frame, kw, recv=recv)

    def interp(self, f, args, env, frame, kwargs, recv=None):
        """Interpret a small repository function: sequences of
        `if test: return X` and a final `return`.  Anything else => UNK."""
        if self._depth > 6:
            return UNK
        params = [a.arg for a in f.node.args.posonlyargs + f.node.args.args]
        subst = {}
        if f.cls and f.parent is None and params and \
                params[0] in ('self', 'cls') and \
                not f.has_decorator('staticmethod'):
            if recv is None:
                return UNK
            subst[params[0]] = (recv, frame)
            params = params[1:]
        if any(isinstance(a, ast.Starred) for a in args):
            return UNK
        if len(args) > len(params):
            return UNK
        for pn, a in zip(params, args):
            subst[pn] = (a, frame)
        for k, v in kwargs.items():
            if k not in params or k in subst:
                return UNK
            subst[k] = (v, frame)
        defaults = f.node.args.defaults
        for pn, dnode in zip(params[len(params) - len(defaults):], defaults):
            if pn not in subst:
                subst[pn] = (dnode, Frame(f.module))
        if any(pn not in subst for pn in params):
            return UNK
        fr = Frame(f.module, subst, frame, f)
        self._depth += 1
        try:
            r = self._run_body(f.node.body, env, fr)
            return None if r is _FALLTHROUGH else r
        finally:
            self._depth -= 1

    def _run_body(self, body, env, fr):
        for st in body:
            if isinstance(st, ast.Expr) and isinstance(st.value,
                                                       ast.Constant):
                continue
            if isinstance(st, ast.Return):
                if st.value is None:
                    return None
                return self.ev(st.value, env, fr)
            if isinstance(st, ast.If):
                t = self.truth(self.ev(st.test, env, fr))
                if t is RAISES:
                    return RAISES
                if t is UNK:
                    return UNK
                if t:
                    r = self._run_body(st.body, env, fr)
                    if r is not _FALLTHROUGH:
                        return r
                elif st.orelse:
                    r = self._run_body(st.orelse, env, fr)
                    if r is not _FALLTHROUGH:
                        return r
                continue
            return UNK
        return _FALLTHROUGH

    # ---- dataflow -----------------------------------------------------
    def analyze(self, cfg, func, variables, init=None, kill=None,
                assume=None, alias=None, block=None, ghost=None,
                types=None, inline=None):
        """Forward dataflow.  variables: list of (key, domain) where key is
        the dotted text of an access path / local name in `func`.
        Returns {node.id: set(valuation tuples)} (valuations before the
        node executes).  `assume(node, env)` may return False to drop a
        valuation at a node (used for caller-side preconditions)."""
        keys = [k for k, _d in variables]
        doms = [tuple(d) for _k, d in variables]
        self._ghost = set(ghost or ())
        self._alias = dict(alias or {})
        # {local name: class} for receivers whose class is known by the
        # repository's conventions (e.g. `task` is an engine Task)
        self._types = dict(types or {})
        self._textkeys = any(('(' in k or '[' in k or ' ' in k)
                             for k in keys) or bool(self._alias)
        frame = Frame(func.module, {}, None, func)
        if inline:
            # single-definition locals evaluated through their defining
            # expression (decision tables phrased over a few inputs)
            for name, expr in inline.items():
                frame.subst[name] = (expr, frame)
        if init is None:
            start = set(itertools.product(*doms))
        else:
            start = set(init)
        IN = {n.id: set() for n in cfg.nodes}
        IN[cfg.entry.id] = set(start)
        work = [cfg.entry]
        inq = {cfg.entry.id}
        while work:
            n = work.pop()
            inq.discard(n.id)
            vals = IN[n.id]
            if block and n.id in block:
                continue
            out_by_kind = self._transfer(cfg, n, vals, keys, doms, frame,
                                         kill)
            for s, k in n.succ:
                o = out_by_kind.get(k, out_by_kind[None])
                before = len(IN[s.id])
                IN[s.id] |= o
                if len(IN[s.id]) != before and s.id not in inq:
                    inq.add(s.id)
                    work.append(s)
        return IN, keys

    def _transfer(self, cfg, n, vals, keys, doms, frame, kill):
        out = {None: vals}
        if n.kind == 'test':
            tset, fset = set(), set()
            test_ast = _unhoisted_test(n, keys)
            for v in vals:
                env = dict(zip(keys, v))
                t = self.truth(self.ev(test_ast, env, frame))
                if t is RAISES:
                    continue
                if t is UNK or t:
                    tset.add(v)
                if t is UNK or not t:
                    fset.add(v)
            out['T'] = tset
            out['F'] = fset
            return out
        if n.kind == 'stmt' and isinstance(n.ast, ast.Assert):
            keep = set()
            for v in vals:
                env = dict(zip(keys, v))
                t = self.truth(self.ev(n.ast.test, env, frame))
                if t is RAISES:
                    continue
                if t is UNK or t:
                    keep.add(v)
            return {None: keep, 'exc': vals}
        if n.kind in ('stmt', 'with', 'for'):
            new = set()
            for v in vals:
                new |= self._assign(cfg, n, v, keys, doms, frame, kill)
            # an exception edge may leave before the statement completes
            out = {None: new, 'exc': vals | new}
            return out
        return out

    def _assign(self, cfg, n, v, keys, doms, frame, kill):
        """Effect of statement node n on valuation v -> set of valuations."""
        env = dict(zip(keys, v))
        havoc = set()
        newvals = {}
        st = n.ast
        if n.kind == 'stmt' and isinstance(st, ast.Assign):
            for t in st.targets:
                self._assign_target(t, st.value, env, frame, keys, havoc,
                                    newvals)
        elif n.kind == 'stmt' and isinstance(st, ast.AugAssign):
            tk = dotted(st.target)
            if isinstance(st.target, ast.Name) and isinstance(
                    st.op, (ast.Add, ast.Sub, ast.Mult, ast.BitOr,
                            ast.BitAnd)):
                # x op= e  is  x = x op e
                synth = ast.copy_location(ast.BinOp(
                    left=ast.copy_location(
                        ast.Name(id=st.target.id, ctx=ast.Load()),
                        st.target),
                    op=st.op, right=st.value), st)
                self._assign_target(st.target, synth, env, frame, keys,
                                    havoc, newvals)
            else:
                for k in keys:
                    if tk and (k == tk or k.startswith(tk + '.')):
                        havoc.add(k)
        elif n.kind == 'for':
            for t in ast.walk(st.target):
                tk = dotted(t)
                for k in keys:
                    if tk and (k == tk or k.startswith(tk + '.')):
                        havoc.add(k)
        elif n.kind == 'with':
            for i in st.items:
                if i.optional_vars is not None:
                    tk = dotted(i.optional_vars)
                    for k in keys:
                        if tk and (k == tk or k.startswith(tk + '.')):
                            havoc.add(k)
        # calls that may change tracked state
        for sub in cfg.own_nodes(n):
            if isinstance(sub, ast.Call):
                attr = sub.func.attr if isinstance(sub.func, ast.Attribute) \
                    else (sub.func.id if isinstance(sub.func, ast.Name)
                          else None)
                if attr == 'refresh' and sub.args and dotted(sub.args[0]):
                    # refresh(x) reloads the attributes of x only
                    root = dotted(sub.args[0])
                    for k in keys:
                        if k.startswith(root + '.') and k not in newvals:
                            havoc.add(k)
                elif attr in KILL_CALL_ATTRS:
                    for k in keys:
                        if k.endswith('.state') and k not in newvals:
                            havoc.add(k)
                if kill is not None:
                    havoc |= set(kill(sub) or ())
        if self._ghost:
            havoc -= self._ghost
            for k in self._ghost:
                newvals.pop(k, None)
        if not havoc and not newvals:
            return {v}
        choices = []
        for k, d, cur in zip(keys, doms, v):
            if k in newvals:
                nv = newvals[k]
                if isinstance(nv, list):
                    # a list literal: compared with the tuples of the domain
                    try:
                        hash(tuple(nv))
                        nv = tuple(nv)
                    except TypeError:
                        pass
                if nv is UNK or nv is RAISES:
                    choices.append(d)
                elif nv in d:
                    choices.append((nv,))
                elif OTHER in d and not isinstance(nv, (list, dict)):
                    choices.append((OTHER,))
                else:
                    choices.append(d)
            elif k in havoc:
                choices.append(d)
            else:
                choices.append((cur,))
        return set(itertools.product(*choices))

    def _assign_target(self, t, value, env, frame, keys, havoc, newvals):
        if isinstance(t, (ast.Tuple, ast.List)):
            for x in t.elts:
                tk = dotted(x)
                for k in keys:
                    if tk and (k == tk or k.startswith(tk + '.')):
                        havoc.add(k)
            return
        tk = dotted(t)
        if tk is None and isinstance(t, ast.Subscript):
            tk = ' '.join(ast.unparse(t).split())
            tk = self._alias.get(tk, tk)
            if tk in keys:
                newvals[tk] = self.ev(value, env, frame)
                return
            base = dotted(t.value)
            # store into an unknown key of a tracked container
            if base and not isinstance(t.slice, ast.Constant):
                for k in keys:
                    if k.startswith(base + '[') or \
                            k.startswith(base + '.get('):
                        havoc.add(k)
            return
        if tk is None:
            return
        for k in keys:
            if k.startswith(tk + '[') or k.startswith(tk + '.get('):
                # rebinding the container: `d = {}` empties it
                if isinstance(value, ast.Dict) and not value.keys:
                    newvals[k] = None
                else:
                    havoc.add(k)
        for k in keys:
            if k == tk:
                newvals[k] = self.ev(value, env, frame)
            elif k.startswith(tk + '.'):
                havoc.add(k)

    def values_at(self, IN, keys, node, key):
        i = keys.index(key)
        return {v[i] for v in IN[node.id]}


_FALLTHROUGH = object()
_COMPLEMENT = {ast.In: ast.NotIn, ast.NotIn: ast.In, ast.Eq: ast.NotEq,
               ast.NotEq: ast.Eq, ast.Is: ast.IsNot, ast.IsNot: ast.Is}


def _num(v):
    return isinstance(v, (int, float)) and not isinstance(v, bool)


def _is(v, options):
    return isinstance(v, str) and v in options
