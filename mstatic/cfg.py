"""Statement-level control-flow graph with dominators and path queries."""
import ast

from mstatic.core import walk_no_defs


class Node(object):
    __slots__ = ('id', 'kind', 'ast', 'label', 'succ', 'pred', 'stmt')

    def __init__(self, nid, kind, ast_node=None, label=''):
        self.id = nid
        self.kind = kind   # entry exit raise_exit stmt test T F for with
        #                    with_exit handler join def
        self.ast = ast_node
        self.label = label
        self.succ = []     # (node, edge_kind)
        self.pred = []
        self.stmt = None   # enclosing statement (for test/for/with nodes)

    @property
    def lineno(self):
        return getattr(self.ast, 'lineno', None)

    def text(self):
        if self.label:
            return self.label
        if self.ast is None:
            return self.kind
        try:
            s = ast.unparse(self.ast)
        except Exception:
            s = type(self.ast).__name__
        return ' '.join(s.split())[:120]

    def __repr__(self):
        return '<%s %s L%s %s>' % (self.id, self.kind, self.lineno,
                                   self.text()[:60])


def link(a, b, kind='n'):
    a.succ.append((b, kind))
    b.pred.append((a, kind))


EXC_KINDS = ('exc',)


class CFG(object):
    def __init__(self, fnode):
        self.fnode = fnode
        self._n = 0
        self.nodes = []
        self.entry = self.new('entry', label='ENTRY')
        self.exit = self.new('exit', label='EXIT')
        self.rexit = self.new('raise_exit', label='RAISE')
        self.loop_stack = []
        self.try_stack = []
        self.fin_stack = []
        self.by_stmt = {}
        cur = self._block(fnode.body, [self.entry])
        for c in cur:
            link(c, self.exit)
        self._idom = None
        self._ipdom = None
        self._parent = None

    def new(self, kind, ast_node=None, label=''):
        self._n += 1
        n = Node(self._n, kind, ast_node, label)
        self.nodes.append(n)
        return n

    def _block(self, stmts, preds):
        cur = preds
        for s in stmts:
            if not cur:
                break
            cur = self._stmt(s, cur)
        return cur

    def _exc_targets(self):
        if self.try_stack:
            return self.try_stack[-1]
        return [self.rexit]

    def _maybe_raise(self, n):
        if self.try_stack:
            for t in self.try_stack[-1]:
                link(n, t, 'exc')

    def _reg(self, s, n):
        self.by_stmt[id(s)] = n
        n.stmt = s

    def _stmt(self, s, preds):
        if isinstance(s, ast.If):
            t = self.new('test', s.test)
            self._reg(s, t)
            for p in preds:
                link(p, t)
            self._maybe_raise(t)
            tn = self.new('T', s.test)
            fn = self.new('F', s.test)
            tn.stmt = fn.stmt = s
            link(t, tn, 'T')
            link(t, fn, 'F')
            a = self._block(s.body, [tn])
            b = self._block(s.orelse, [fn]) if s.orelse else [fn]
            return a + b
        if isinstance(s, ast.While):
            t = self.new('test', s.test)
            self._reg(s, t)
            for p in preds:
                link(p, t)
            self._maybe_raise(t)
            tn = self.new('T', s.test)
            fn = self.new('F', s.test)
            tn.stmt = fn.stmt = s
            link(t, tn, 'T')
            const_true = isinstance(s.test, ast.Constant) and s.test.value
            if not const_true:
                link(t, fn, 'F')
            after = self.new('join', label='after-loop')
            self.loop_stack.append((t, after, len(self.fin_stack)))
            body_out = self._block(s.body, [tn])
            self.loop_stack.pop()
            for o in body_out:
                link(o, t, 'back')
            if not const_true:
                out = self._block(s.orelse, [fn]) if s.orelse else [fn]
                for o in out:
                    link(o, after)
            return [after] if after.pred else []
        if isinstance(s, (ast.For, ast.AsyncFor)):
            t = self.new('for', s)
            self._reg(s, t)
            for p in preds:
                link(p, t)
            self._maybe_raise(t)
            tn = self.new('T', s)
            fn = self.new('F', s)
            tn.stmt = fn.stmt = s
            link(t, tn, 'T')
            link(t, fn, 'F')
            after = self.new('join', label='after-loop')
            self.loop_stack.append((t, after, len(self.fin_stack)))
            body_out = self._block(s.body, [tn])
            self.loop_stack.pop()
            for o in body_out:
                link(o, t, 'back')
            out = self._block(s.orelse, [fn]) if s.orelse else [fn]
            for o in out:
                link(o, after)
            return [after]
        if isinstance(s, (ast.With, ast.AsyncWith)):
            w = self.new('with', s)
            self._reg(s, w)
            for p in preds:
                link(p, w)
            self._maybe_raise(w)
            out = self._block(s.body, [w])
            we = self.new('with_exit', s)
            we.stmt = s
            for o in out:
                link(o, we)
            return [we] if we.pred else []
        if isinstance(s, ast.Try) or s.__class__.__name__ == 'TryStar':
            handlers = []
            for h in s.handlers:
                hn = self.new('handler', h)
                hn.stmt = s
                handlers.append(hn)
            fin_entry = None
            if s.finalbody:
                fin_entry = self.new('join', label='finally')
                fin_entry.stmt = s
            outer = self._exc_targets()
            targets = list(handlers)
            if fin_entry is not None:
                # an exception not caught by any handler runs finally
                if not _catches_all(s):
                    targets = targets + [fin_entry]
            elif not _catches_all(s):
                targets = targets + outer
            if fin_entry is not None:
                self.fin_stack.append(fin_entry)
            self.try_stack.append(targets)
            body_out = self._block(s.body, preds)
            self.try_stack.pop()
            # exceptions raised in handlers / else go to finally or outward
            if fin_entry is not None:
                self.try_stack.append([fin_entry])
            else_out = self._block(s.orelse, body_out) if s.orelse \
                else body_out
            outs = list(else_out)
            for hn, h in zip(handlers, s.handlers):
                outs += self._block(h.body, [hn])
            if fin_entry is not None:
                self.try_stack.pop()
                self.fin_stack.pop()
                for o in outs:
                    link(o, fin_entry)
                fo = self._block(s.finalbody, [fin_entry])
                # after finally an in-flight exception / return continues
                for o in fo:
                    kinds = {k for (_p, k) in fin_entry.pred}
                    if 'exc' in kinds:
                        for t in outer:
                            link(o, t, 'exc')
                    if 'return' in kinds:
                        link(o, self._return_target(), 'return')
                return fo
            return outs
        if isinstance(s, ast.Return):
            n = self.new('stmt', s)
            self._reg(s, n)
            for p in preds:
                link(p, n)
            self._maybe_raise(n)
            link(n, self._return_target(), 'return')
            return []
        if isinstance(s, ast.Raise):
            n = self.new('stmt', s)
            self._reg(s, n)
            for p in preds:
                link(p, n)
            for t in self._exc_targets():
                link(n, t, 'exc')
            return []
        if isinstance(s, ast.Break):
            n = self.new('stmt', s)
            self._reg(s, n)
            for p in preds:
                link(p, n)
            link(n, self.loop_stack[-1][1], 'break')
            return []
        if isinstance(s, ast.Continue):
            n = self.new('stmt', s)
            self._reg(s, n)
            for p in preds:
                link(p, n)
            link(n, self.loop_stack[-1][0], 'continue')
            return []
        if isinstance(s, (ast.FunctionDef, ast.AsyncFunctionDef,
                          ast.ClassDef)):
            n = self.new('def', s, label='def ' + s.name)
            self._reg(s, n)
            for p in preds:
                link(p, n)
            return [n]
        if s.__class__.__name__ == 'Match':
            t = self.new('test', s.subject)
            self._reg(s, t)
            for p in preds:
                link(p, t)
            outs = [t]
            for case in s.cases:
                outs += self._block(case.body, [t])
            return outs
        n = self.new('stmt', s)
        self._reg(s, n)
        for p in preds:
            link(p, n)
        self._maybe_raise(n)
        if isinstance(s, ast.Assert):
            for t in self._exc_targets():
                link(n, t, 'exc')
        return [n]

    def _return_target(self):
        if self.fin_stack:
            return self.fin_stack[-1]
        return self.exit

    # ---- expression ownership --------------------------------------
    def exprs_of(self, n):
        a = n.ast
        if a is None or n.kind in ('T', 'F', 'with_exit', 'def', 'join',
                                   'entry', 'exit', 'raise_exit',
                                   'handler'):
            return []
        if n.kind == 'with':
            out = []
            for i in a.items:
                out.append(i.context_expr)
                if i.optional_vars is not None:
                    out.append(i.optional_vars)
            return out
        if n.kind == 'for':
            return [a.iter, a.target]
        return [a]

    def own_nodes(self, n):
        for e in self.exprs_of(n):
            for sub in walk_no_defs(e):
                yield sub

    def calls(self, pred=None):
        out = []
        for n in self.nodes:
            for sub in self.own_nodes(n):
                if isinstance(sub, ast.Call) and (pred is None or pred(sub)):
                    out.append((n, sub))
        return out

    def node_of(self, ast_node):
        """CFG node whose own expressions contain ast_node."""
        if self._parent is None:
            self._parent = {}
            for n in self.nodes:
                for sub in self.own_nodes(n):
                    self._parent[id(sub)] = n
        return self._parent.get(id(ast_node))

    # ---- dominators --------------------------------------------------
    def _order(self, start, succ):
        seen = {start.id}
        order = []
        stack = [(start, iter(succ(start)))]
        while stack:
            node, it = stack[-1]
            for s in it:
                if s.id not in seen:
                    seen.add(s.id)
                    stack.append((s, iter(succ(s))))
                    break
            else:
                order.append(node)
                stack.pop()
        order.reverse()
        return order

    def _compute_idom(self, start, succ, pred):
        rpo = self._order(start, succ)
        idx = {n.id: i for i, n in enumerate(rpo)}
        idom = {start.id: start}

        def inter(a, b):
            while a is not b:
                while idx[a.id] > idx[b.id]:
                    a = idom[a.id]
                while idx[b.id] > idx[a.id]:
                    b = idom[b.id]
            return a
        changed = True
        while changed:
            changed = False
            for n in rpo[1:]:
                ps = [p for p in pred(n) if p.id in idom and p.id in idx]
                if not ps:
                    continue
                new = ps[0]
                for p in ps[1:]:
                    new = inter(new, p)
                if idom.get(n.id) is not new:
                    idom[n.id] = new
                    changed = True
        return idom

    def idom(self):
        if self._idom is None:
            self._idom = self._compute_idom(
                self.entry, lambda n: [s for s, _k in n.succ],
                lambda n: [p for p, _k in n.pred])
        return self._idom

    def reachable(self, n):
        return n.id in self.idom()

    def dominators(self, n):
        """Strict dominators of n, nearest first."""
        idom = self.idom()
        out = []
        if n.id not in idom:
            return out
        cur = n
        while cur is not self.entry:
            cur = idom[cur.id]
            out.append(cur)
        return out

    def dominates(self, a, b):
        return a is b or any(d is a for d in self.dominators(b))

    def guards(self, n):
        """Dominating branch edges of n: list of (test_ast, polarity, node),
        nearest first.  For `for` loops the test_ast is the For statement."""
        out = []
        for d in ([n] if n.kind in ('T', 'F') else []) + self.dominators(n):
            if d.kind in ('T', 'F'):
                out.append((d.ast, d.kind == 'T', d))
        return out

    def enclosing_withs(self, n):
        """`with` nodes dominating n whose with_exit does not dominate n
        (i.e. n is inside the with body)."""
        out = []
        doms = self.dominators(n)
        for d in doms:
            if d.kind == 'with':
                s = d.ast
                if _contains_stmt(s, n):
                    out.append(d)
        return out

    def enclosing_trys(self, n):
        """Try statements whose *body* contains node n (by source nesting)."""
        out = []
        target = n.stmt if n.stmt is not None else n.ast
        for t in ast.walk(self.fnode):
            if isinstance(t, ast.Try):
                for b in t.body:
                    if _stmt_contains(b, target):
                        out.append(t)
                        break
        return out

    # ---- path queries ------------------------------------------------
    def reach(self, starts, avoid=(), follow_exc=True, stop=()):
        avoid = {a.id for a in avoid}
        stop = {a.id for a in stop}
        seen = set()
        todo = [s for s in starts if s.id not in avoid]
        for s in todo:
            seen.add(s.id)
        out = list(todo)
        while todo:
            x = todo.pop()
            if x.id in stop:
                continue
            for s, k in x.succ:
                if not follow_exc and k in EXC_KINDS:
                    continue
                if s.id in seen or s.id in avoid:
                    continue
                seen.add(s.id)
                out.append(s)
                todo.append(s)
        return out

    def must_pass(self, src, through, exits=None, follow_exc=False):
        """True iff every path from src (exclusive) to a normal exit passes
        through a node of `through`."""
        exits = exits or [self.exit]
        starts = [s for s, k in src.succ
                  if follow_exc or k not in EXC_KINDS]
        r = self.reach(starts, avoid=through, follow_exc=follow_exc)
        ids = {n.id for n in r}
        return not any(e.id in ids for e in exits)

    def paths_between(self, a, b, follow_exc=False):
        """Is b reachable from a (exclusive of a)?"""
        starts = [s for s, k in a.succ if follow_exc or k not in EXC_KINDS]
        return any(n is b for n in self.reach(starts, follow_exc=follow_exc))

    def stmt_node(self, stmt):
        return self.by_stmt.get(id(stmt))


def _stmt_contains(outer, inner):
    if outer is inner:
        return True
    for sub in ast.walk(outer):
        if sub is inner:
            return True
    return False


def _contains_stmt(with_stmt, n):
    target = n.stmt if n.stmt is not None else n.ast
    if target is None:
        return False
    for b in with_stmt.body:
        if _stmt_contains(b, target):
            return True
    return False


def _catches_all(t):
    for h in t.handlers:
        if h.type is None:
            return True
        try:
            if ast.unparse(h.type) in ('Exception', 'BaseException'):
                return True
        except Exception:
            pass
    return False
