"""Self-test of the checker: mutants must be reported, behaviour-preserving
variants must not.

A mutant is a small edit of one source file of /repo, applied to an in-memory
overlay (nothing is written to /repo).  The mutated module must still parse.
For every mutant the property's rules are evaluated on the overlay; the
mutant is *killed* when a violation that is not present on the unmodified
tree is reported by (one of) the expected rule(s).  Seeded changes stored
under /verif/seeded/<id>/patch.diff are used as mutants too.
"""
import ast
import importlib
import json
import multiprocessing
import os
import re
import sys
import time

from mstatic.core import AnalysisError

VERIF = os.path.dirname(os.path.dirname(os.path.abspath(__file__)))


def _violations(prop, repo, overlay):
    from mstatic import report
    ctx = report.Ctx(prop, 'quick', repo, overlay)
    from mstatic import rules
    try:
        rules.run(ctx)
    except AnalysisError as e:
        # a lost anchor / floor is also a detection (exit 2 at run time)
        return {('ANALYSIS-ERROR', str(e)[:120])}
    out = {(v.rule, v.construct) for r in ctx.rules for v in r.violations}
    for e in getattr(ctx, 'analysis_errors', []) or []:
        out.add(('ANALYSIS-ERROR', str(e)[:120]))
    if not out:
        try:
            for r in ctx.rules:
                r.finish()
        except AnalysisError as e:
            return {('ANALYSIS-ERROR', str(e)[:120])}
    return out


def apply_edit(src, old, new, count=1):
    if src.count(old) != count:
        return None
    return src.replace(old, new)


def apply_unified_diff(files, diff_text):
    """Apply a unified diff to {path: source}. Returns {path: new source}
    for the touched files or None when a hunk does not apply."""
    out = {}
    cur = None
    hunks = []
    for line in diff_text.splitlines():
        if line.startswith('diff --git ') or (
                line.startswith('--- ') and (cur is None or (
                    hunks and _hunk_complete(hunks[-1])))):
            # header of the next file: its '--- a/...' line is not a removal
            cur = None
            continue
        if line.startswith('+++ ') and cur is None:
            p = line[4:].strip()
            if p.startswith('b/'):
                p = p[2:]
            cur = p
            hunks = []
            out[cur] = hunks
        elif line.startswith('@@') and cur is not None:
            m = re.match(r'@@ -(\d+)(?:,(\d+))? \+(\d+)(?:,(\d+))? @@', line)
            hunks.append({'start': int(m.group(1)), 'lines': [],
                          'n_old': int(m.group(2) or 1),
                          'n_new': int(m.group(4) or 1)})
        elif cur is not None and hunks and (
                line.startswith((' ', '+', '-')) or line == ''):
            if line.startswith('\\'):
                continue
            hunks[-1]['lines'].append(line if line else ' ')
    res = {}
    for path, hs in out.items():
        if path == '/dev/null' or not path.endswith('.py'):
            continue
        src = files(path)
        if src is None:
            return None
        lines = src.split('\n')
        offset = 0
        for h in hs:
            old = [x[1:] for x in h['lines'] if x[0] in ' -']
            new = [x[1:] for x in h['lines'] if x[0] in ' +']
            pos = h['start'] - 1 + offset
            found = None
            for d in range(0, 200):
                for cand in (pos + d, pos - d):
                    if 0 <= cand <= len(lines) - len(old) and \
                            lines[cand:cand + len(old)] == old:
                        found = cand
                        break
                if found is not None:
                    break
            if found is None:
                return None
            lines[found:found + len(old)] = new
            offset += len(new) - len(old)
        res[path] = '\n'.join(lines)
    return res


def _hunk_complete(h):
    n_old = sum(1 for x in h['lines'] if x[0] in ' -')
    n_new = sum(1 for x in h['lines'] if x[0] in ' +')
    return n_old >= h['n_old'] and n_new >= h['n_new']


def _read(repo, path):
    p = os.path.join(repo, path)
    if not os.path.exists(p):
        return None
    with open(p, encoding='utf-8') as fh:
        return fh.read()


def _run_one(job):
    kind, mid, prop, repo, overlay, expect, base = job
    t0 = time.time()
    try:
        for path, src in overlay.items():
            ast.parse(src, path)
    except SyntaxError as e:
        return (kind, mid, prop, 'does-not-parse', str(e), 0.0)
    try:
        got = _violations(prop, repo, overlay)
    except Exception as e:
        return (kind, mid, prop, 'checker-crashed', repr(e)[:200],
                time.time() - t0)
    new = got - base
    if kind == 'refactor':
        return (kind, mid, prop, 'flagged' if new else 'silent',
                sorted(new)[:3], time.time() - t0)
    hit = [v for v in new if not expect or
           any(v[0] == e or v[0] == 'ANALYSIS-ERROR' for e in expect)]
    return (kind, mid, prop, 'killed' if hit else
            ('killed-by-other-rule' if new else 'survived'),
            sorted(new)[:3], time.time() - t0)


def collect_jobs(props, repo):
    from mstatic import mutants as M
    jobs = []
    skipped = []
    base = {}
    for p in props:
        base[p] = _violations(p, repo, None)
    for m in M.MUTANTS + M.REFACTORS:
        if m['prop'] not in props:
            continue
        src = _read(repo, m['path'])
        new = apply_edit(src, m['old'], m['new'], m.get('count', 1)) \
            if src is not None else None
        if new is None:
            skipped.append(m['id'])
            continue
        kind = 'refactor' if m in M.REFACTORS else 'mutant'
        jobs.append((kind, m['id'], m['prop'], repo, {m['path']: new},
                     m.get('rules', []), base[m['prop']]))
    sdir = os.path.join(VERIF, 'seeded')
    if os.path.isdir(sdir):
        for sid in sorted(os.listdir(sdir)):
            pf = os.path.join(sdir, sid, 'patch.diff')
            mf = os.path.join(sdir, sid, 'meta.json')
            if not os.path.exists(pf):
                continue
            caught_by = []
            if os.path.exists(mf):
                try:
                    caught_by = json.load(open(mf)).get('caught_by', [])
                except Exception:
                    caught_by = []
            if not caught_by:
                # not yet evaluated by tools/seed_matrix.py (a seed that was
                # just stored): listed as skipped, never a failed self-test
                # of the registered check
                skipped.append('seed:' + sid + ' (no caught_by yet)')
                continue
            targets = sorted({c.split('.')[0] for c in caught_by})
            with open(pf) as fh:
                diff = fh.read()
            ov = apply_unified_diff(lambda p: _read(repo, p), diff)
            for p in targets:
                if p not in props:
                    continue
                if ov is None:
                    skipped.append('seed:' + sid)
                    continue
                rules = [c.split('.')[1] for c in caught_by
                         if c.startswith(p + '.')]
                jobs.append(('mutant', 'seed:' + sid, p, repo, ov, rules,
                             base[p]))
    if os.environ.get('MSTATIC_NO_GENERATED_VARIANTS') != '1':
        for p in props:
            for (mid, ov) in generated_variants(p, repo):
                jobs.append(('refactor', mid, p, repo, ov, [], base[p]))
    return jobs, skipped


GENERATED_KINDS = ('p-rename-local', 'p-hoist-test', 'p-mirror-eq',
                   'p-swap-else', 'p-add-log', 'p-extract-arg')
GENERATED_MAX = 48


def generated_variants(prop, repo):
    """A deterministic sample of mechanically generated behaviour-preserving
    variants (tools/sweep.py: local renamed, test value named first, ==
    mirrored, branches swapped, logging statement inserted, argument named
    first) of the functions this property's rules are anchored in.  Every
    report on such a variant is a false alarm of the checker."""
    tools = os.path.join(VERIF, 'tools')
    if tools not in sys.path:
        sys.path.insert(0, tools)
    try:
        import sweep
    except Exception:
        return []
    from mstatic.core import Program
    try:
        prog, anc = sweep.anchors(prop)
    except Exception:
        return []
    prog = Program(repo, normalise=False)
    saved = sweep.KINDS
    sweep.KINDS = GENERATED_KINDS
    out = []
    try:
        for q in sorted(anc):
            if q not in prog.funcs:
                continue
            for (path, src, desc) in sweep.mutants_of(prog, q):
                out.append(('gen:' + desc.split(' PRESERVING')[0], {path: src}))
    finally:
        sweep.KINDS = saved
    if len(out) > GENERATED_MAX:
        step = len(out) / float(GENERATED_MAX)
        out = [out[int(i * step)] for i in range(GENERATED_MAX)]
    return out


def run_jobs(jobs):
    n = min(16, max(1, len(jobs)))
    if not jobs:
        return []
    with multiprocessing.Pool(n) as pool:
        return pool.map(_run_one, jobs, chunksize=1)


def for_property(prop, repo):
    t0 = time.time()
    jobs, skipped = collect_jobs([prop], repo)
    res = run_jobs(jobs)
    muts = [r for r in res if r[0] == 'mutant']
    refs = [r for r in res if r[0] == 'refactor']
    survived = [r[1] for r in muts if r[3] not in ('killed',)]
    flagged = [r[1] for r in refs if r[3] != 'silent']
    return {
        'mutants_total': len(muts),
        'mutants_killed': len([r for r in muts if r[3] == 'killed']),
        'mutants_survived': survived,
        'mutants_not_applicable': skipped,
        'refactor_variants': len(refs),
        'refactors_flagged': flagged,
        'selftest_samples': [{'id': r[1], 'verdict': r[3],
                              'reported': [list(x) for x in r[4]]
                              if isinstance(r[4], list) else r[4]}
                             for r in res[:8]],
        'selftest_wall_s': round(time.time() - t0, 2),
    }


def main(argv, repo):
    from mstatic.cli import PROPS
    props = [a.upper() for a in argv] or PROPS
    t0 = time.time()
    jobs, skipped = collect_jobs(props, repo)
    res = run_jobs(jobs)
    bad = 0
    for r in sorted(res, key=lambda x: (x[2], x[0], x[1])):
        kind, mid, prop, verdict, info, wall = r
        okv = verdict in ('killed', 'silent')
        if not okv:
            bad += 1
        print('%-8s %-4s %-55s %-22s %s' % (kind, prop, mid, verdict,
                                            '' if okv else info))
    for s in skipped:
        print('skipped  (edit does not apply to the current tree) %s' % s)
    muts = [r for r in res if r[0] == 'mutant']
    refs = [r for r in res if r[0] == 'refactor']
    print('selftest: %d mutants (%d killed), %d refactor variants (%d '
          'silent), %d skipped, %.1fs'
          % (len(muts), len([r for r in muts if r[3] == 'killed']),
             len(refs), len([r for r in refs if r[3] == 'silent']),
             len(skipped), time.time() - t0))
    return 0 if bad == 0 else 2


if __name__ == '__main__':
    sys.exit(main(sys.argv[1:], '/repo'))
