"""Mutant self-test of the rules (filled in progressively)."""


def for_property(prop, repo):
    return {}


def main(argv, repo):
    print('selftest: not built yet')
    return 0
