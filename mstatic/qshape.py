"""Query-shape analysis for SQLAlchemy query builders.

Follows the local variable that carries the query through `q = q.filter(...)`
re-assignments and reports, for the statement that consumes it
(return / .all() / .delete() / .count()), the operations applied on EVERY
path (CFG dominance) and those applied only conditionally.
"""
import ast

from mstatic.core import dotted, norm, own_nodes

OPS = ('filter', 'filter_by', 'order_by', 'offset', 'limit', 'join',
       'with_for_update')


class Op(object):
    def __init__(self, name, call, node, always):
        self.name = name
        self.call = call
        self.node = node
        self.always = always

    @property
    def text(self):
        return ' '.join(ast.unparse(self.call).split())

    def args_text(self):
        parts = [norm(a, 300) for a in self.call.args]
        parts += ['%s=%s' % (k.arg, norm(k.value, 300))
                  for k in self.call.keywords]
        return ', '.join(parts)

    def __repr__(self):
        return '%s(%s)%s' % (self.name, self.args_text(),
                             '' if self.always else ' [conditional]')


def chain_ops(expr):
    """Ops applied in a method chain expression, innermost first."""
    out = []
    cur = expr
    while isinstance(cur, ast.Call) and isinstance(cur.func, ast.Attribute):
        if cur.func.attr in OPS:
            out.append((cur.func.attr, cur))
        cur = cur.func.value
    out.reverse()
    return out, cur


def query_ops(cfg, fnode, var='query'):
    """[(Op)] for all operations assigned onto `var` in the function, with
    `always` = the assignment node dominates every return of the function
    that is not dominated by an earlier return guard."""
    rets = [n for n in cfg.nodes if n.kind == 'stmt' and
            isinstance(n.ast, ast.Return) and n.ast.value is not None and
            (var in {x.id for x in ast.walk(n.ast.value)
                     if isinstance(x, ast.Name)})]
    ops = []
    base = None
    for n in cfg.nodes:
        if n.kind != 'stmt' or not isinstance(n.ast, ast.Assign):
            continue
        if len(n.ast.targets) != 1 or dotted(n.ast.targets[0]) != var:
            continue
        chain, root = chain_ops(n.ast.value)
        if dotted(root) != var:
            base = (root, n)
        always = bool(rets) and all(cfg.dominates(n, r) for r in rets)
        for name, call in chain:
            ops.append(Op(name, call, n, always))
    # ops applied directly in the return expression
    for r in rets:
        chain, root = chain_ops(r.ast.value.func.value
                                if isinstance(r.ast.value, ast.Call) and
                                isinstance(r.ast.value.func, ast.Attribute)
                                else r.ast.value)
        for name, call in chain:
            ops.append(Op(name, call, r, len(rets) == 1))
    return ops, base, rets
