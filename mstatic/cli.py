"""Command line: ./check <property|all> [quick|thorough] [--repo DIR]
                 ./check <property> --replay <file>
                 ./check selftest [property ...]
"""
import importlib
import json
import os
import sys
import time
import traceback

from mstatic.core import AnalysisError
from mstatic import report

PROPS = ['C%02d' % i for i in range(1, 21)]


def run_property(prop, tier, repo, overlay=None, quiet=False, write=True,
                 prog=None, cg=None):
    t0 = time.time()
    ctx = report.Ctx(prop, tier, repo, overlay, prog=prog, cg=cg)
    from mstatic import rules
    rules.run(ctx)
    extra = None
    if tier == 'thorough' and write:
        from mstatic import selftest
        extra = selftest.for_property(prop, repo)
    out_dir = None
    if os.path.realpath(repo) != '/repo':
        # never overwrite the committed evidence with a run on a scratch copy
        out_dir = os.path.join('/tmp', 'mstatic-evidence',
                               os.path.basename(os.path.normpath(repo)))
    rc = report.conclude(ctx, t0, out_dir=out_dir, quiet=quiet, write=write,
                         extra_coverage=extra)
    if extra and extra.get('mutants_survived'):
        print('ANALYSIS-ERROR property=%s checker self-test: %d mutant(s) '
              'not detected: %s' % (prop, len(extra['mutants_survived']),
                                    extra['mutants_survived']))
        return 2
    if extra and extra.get('refactors_flagged'):
        print('ANALYSIS-ERROR property=%s checker self-test: behaviour-'
              'preserving variant(s) flagged: %s'
              % (prop, extra['refactors_flagged']))
        return 2
    return rc, ctx


def main(argv=None):
    argv = list(sys.argv[1:] if argv is None else argv)
    repo = os.environ.get('MSTATIC_REPO', '/repo')
    if '--repo' in argv:
        i = argv.index('--repo')
        repo = argv[i + 1]
        del argv[i:i + 2]
    replay = None
    if '--replay' in argv:
        i = argv.index('--replay')
        replay = argv[i + 1]
        del argv[i:i + 2]
    if not argv:
        print(__doc__)
        return 2
    what = argv[0]
    tier = argv[1] if len(argv) > 1 else os.environ.get('VERIF_TIER',
                                                        'quick')
    if what == 'selftest':
        from mstatic import selftest
        return selftest.main(argv[1:], repo)
    props = PROPS if what == 'all' else [what.upper()]
    worst = 0
    for prop in props:
        if prop not in PROPS:
            print('unknown property %s' % prop)
            return 2
        try:
            if replay:
                rc = do_replay(prop, replay, repo)
            else:
                res = run_property(prop, tier, repo)
                rc = res[0] if isinstance(res, tuple) else res
        except AnalysisError as e:
            print('ANALYSIS-ERROR property=%s %s' % (prop, e))
            rc = 2
        except Exception:
            traceback.print_exc()
            print('ANALYSIS-ERROR property=%s internal error (see '
                  'traceback)' % prop)
            rc = 2
        worst = max(worst, rc)
    return worst


def do_replay(prop, path, repo):
    with open(path) as fh:
        want = json.load(fh)
    t0 = time.time()
    ctx = report.Ctx(prop, 'quick', repo)
    from mstatic import rules
    rules.run(ctx)
    for r in ctx.rules:
        for v in r.violations:
            if v.rule == want['rule'] and v.construct == want['construct']:
                print('%s: %s.%s: %s -- %s' % (v.where, prop, v.rule,
                                              v.construct, v.msg))
                print('VIOLATION property=%s replay=%s' % (prop, path))
                return 1
    print('replay: %s.%s %s no longer violates (%.2fs)'
          % (prop, want['rule'], want['construct'], time.time() - t0))
    return 0


if __name__ == '__main__':
    sys.exit(main())
