"""Structural expression patterns with metavariables.

A pattern is Python source in which names starting with `__` are
metavariables: `__x` binds any sub-expression (consistently), `___` matches
anything without binding.  Matching is modulo

* the names of locals (through metavariables),
* operand order of `==`, `!=`, `and`, `or`, `+` on numbers is NOT assumed -
  only `==`/`!=`/`is`/`is not` are commuted and `a < b` ~ `b > a`,
  `a <= b` ~ `b >= a`; `and`/`or` operands are matched as multisets,
* keyword-argument order.

So `P('__x.accepted and __x.state == states.ERROR')` matches
`states.ERROR == e.state and e.accepted`.
"""
import ast
import itertools
import re

_FLIP = {ast.Lt: ast.Gt, ast.Gt: ast.Lt, ast.LtE: ast.GtE, ast.GtE: ast.LtE,
         ast.Eq: ast.Eq, ast.NotEq: ast.NotEq, ast.Is: ast.Is,
         ast.IsNot: ast.IsNot}

_cache = {}


def P(src):
    """Compile a pattern (expression, or a statement when it does not parse
    as an expression)."""
    if src in _cache:
        return _cache[src]
    try:
        node = ast.parse(src, mode='eval').body
    except SyntaxError:
        node = ast.parse(src).body[0]
    _cache[src] = node
    return node


def _dump(n):
    """ast.dump without the Load/Store context (a comprehension target and
    its uses are the same name)."""
    return re.sub(r",? ?ctx=(Load|Store|Del)\(\)", "", ast.dump(n))


def _is_meta(n):
    return isinstance(n, ast.Name) and n.id.startswith('__')


def match(pat, node, binds=None):
    """Return a binding dict when node matches pat, else None."""
    binds = dict(binds or {})
    return _m(pat, node, binds)


def _m(p, n, b):
    if _is_meta(p):
        if p.id == '___':
            return b
        if p.id in b:
            return b if _dump(b[p.id]) == _dump(n) else None
        b = dict(b)
        b[p.id] = n
        return b
    if isinstance(p, ast.Attribute) and p.attr.startswith('__'):
        # metavariable attribute name: x.__a
        if not isinstance(n, ast.Attribute):
            return None
        key = '.' + p.attr
        if key in b and b[key] != n.attr:
            return None
        b = dict(b)
        b[key] = n.attr
        return _m(p.value, n.value, b)
    if type(p) is not type(n):
        # a < b  ~  b > a
        return None
    if isinstance(p, ast.Compare):
        if len(p.ops) != 1 or len(n.ops) != 1:
            return _generic(p, n, b)
        r = None
        if type(p.ops[0]) is type(n.ops[0]):
            r = _m(p.left, n.left, b)
            if r is not None:
                r = _m(p.comparators[0], n.comparators[0], r)
        if r is None and type(p.ops[0]) in _FLIP and \
                _FLIP[type(p.ops[0])] is type(n.ops[0]):
            r = _m(p.left, n.comparators[0], b)
            if r is not None:
                r = _m(p.comparators[0], n.left, r)
        return r
    if isinstance(p, ast.BoolOp):
        if type(p.op) is not type(n.op) or len(p.values) != len(n.values):
            return None
        for perm in itertools.permutations(n.values):
            r = b
            for pv, nv in zip(p.values, perm):
                r = _m(pv, nv, r)
                if r is None:
                    break
            if r is not None:
                return r
        return None
    if isinstance(p, ast.Call):
        r = _m(p.func, n.func, b)
        if r is None:
            return None
        pargs = list(p.args)
        if pargs and isinstance(pargs[-1], ast.Starred) and \
                _is_meta(pargs[-1].value) and pargs[-1].value.id == '___':
            # f(a, *___) : any further positional/keyword arguments
            pargs = pargs[:-1]
            if len(n.args) < len(pargs):
                return None
            for pa, na in zip(pargs, n.args):
                r = _m(pa, na, r)
                if r is None:
                    return None
            nk = {k.arg: k.value for k in n.keywords}
            for k in p.keywords:
                if k.arg not in nk:
                    return None
                r = _m(k.value, nk[k.arg], r)
                if r is None:
                    return None
            return r
        if len(pargs) != len(n.args) or len(p.keywords) != len(n.keywords):
            return None
        for pa, na in zip(pargs, n.args):
            r = _m(pa, na, r)
            if r is None:
                return None
        nk = {k.arg: k.value for k in n.keywords}
        for k in p.keywords:
            if k.arg not in nk:
                return None
            r = _m(k.value, nk[k.arg], r)
            if r is None:
                return None
        return r
    if isinstance(p, ast.Dict):
        if len(p.keys) != len(n.keys):
            return None
        used = set()
        r = b
        for pk, pv in zip(p.keys, p.values):
            hit = None
            for i, (nk_, nv) in enumerate(zip(n.keys, n.values)):
                if i in used or pk is None or nk_ is None:
                    continue
                r2 = _m(pk, nk_, r)
                if r2 is not None:
                    r2 = _m(pv, nv, r2)
                if r2 is not None:
                    hit = (i, r2)
                    break
            if hit is None:
                return None
            used.add(hit[0])
            r = hit[1]
        return r
    return _generic(p, n, b)


def _generic(p, n, b):
    for field in p._fields:
        if field in ('ctx', 'lineno', 'col_offset', 'end_lineno',
                     'end_col_offset', 'type_comment', 'kind'):
            continue
        pv = getattr(p, field, None)
        nv = getattr(n, field, None)
        if isinstance(pv, list):
            if not isinstance(nv, list) or len(pv) != len(nv):
                return None
            for x, y in zip(pv, nv):
                if isinstance(x, ast.AST):
                    b = _m(x, y, b)
                    if b is None:
                        return None
                elif x != y:
                    return None
        elif isinstance(pv, ast.AST):
            if not isinstance(nv, ast.AST):
                return None
            b = _m(pv, nv, b)
            if b is None:
                return None
        elif pv != nv:
            return None
    return b


def find(root, pat, binds=None):
    """[(node, bindings)] for all sub-nodes of root matching pat."""
    if isinstance(pat, str):
        pat = P(pat)
    out = []
    roots = root if isinstance(root, (list, tuple)) else [root]
    for r in roots:
        for n in ast.walk(r):
            b = match(pat, n, binds)
            if b is not None:
                out.append((n, b))
    return out


def has(root, pat, binds=None):
    return bool(find(root, pat, binds))
